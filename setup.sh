#!/bin/sh
# Builds the framework from files on disk only (offline) and warms the build
# caches of both toolchains so that the first check does not pay for it.
set -e
export GOFLAGS=-mod=mod GOPROXY=off GOSUMDB=off GOTOOLCHAIN=local
cd "$(dirname "$0")"
mkdir -p evidence replays
T=$(mktemp -d)
trap 'rm -rf "$T"' EXIT
(cd sched && go test -tags verif -c -o "$T/a.test" . && go1.26.8 test -tags verif -c -o "$T/b.test" . && go test -race -tags verif -c -o "$T/c.test" .)
for d in gen; do
  if [ -f "$d/go.mod" ]; then (cd "$d" && go test -tags verif -c -o "$T/$d.test" . ); fi
done
echo setup ok
