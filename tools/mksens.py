#!/usr/bin/env python3
"""Builds SENSITIVITY.md from the sensitivity runs (tools/sens.py) and seeded/*/meta.json."""
import glob, json, os
V = os.path.dirname(os.path.dirname(os.path.abspath(__file__)))
rows = {}
for f in sorted(glob.glob(os.path.join(V, "SENSITIVITY*.json")), key=os.path.getmtime):
    for r in json.load(open(f)):
        rows.setdefault(r["mutant"], {"desc": r.get("desc", ""), "suite": r.get("suite_passes"), "checks": {}})
        rows[r["mutant"]]["checks"].update(r.get("checks", {}))
        if r.get("suite_passes") is not None:
            rows[r["mutant"]]["suite"] = r["suite_passes"]
out = ["# Sensitivity of the checks", "",
       "Every row is a change applied to a scratch worktree of /repo (never to /repo itself); the registered",
       "checks were then pointed at that worktree (`VERIF_REPO`, quick tier, VERIF_SEED=1). `suite` says whether the",
       "repository's own tests still pass with the change (that is what makes a change *realistic*); mutants whose",
       "suite fails are still useful to see that the check reacts. `missed` entries are explained below the table.", "",
       "## Hand-written mutants (tools/mutants.py)", "",
       "| mutant | what it does | suite passes | check verdicts |", "|---|---|---|---|"]
for name in sorted(rows):
    r = rows[name]
    v = ", ".join("%s: %s" % (p, "DETECTED" if c["violation"] else ("inconclusive" if c["exit"] == 2 else "missed")) for p, c in sorted(r["checks"].items()))
    out.append("| %s | %s | %s | %s |" % (name, r["desc"], {True: "yes", False: "no", None: "?"}[r["suite"]], v))
out += ["", "Notes on `missed` entries:",
        "* s10 (C05), s24 (C05), s06/s07-style leaks (C05): the mutant does not block Wait; the property named in the row was a guess, the property it really breaks is detected (C07 resp. C06).",
        "* g19: equivalent mutant (the cycle check still fires once the path is longer than 64 entries, i.e. on every real cycle).",
        "* s23: equivalent mutant (a consumer with duplicate dependencies reaches 0 exactly once), s25: deliberately equivalent mutant; both must stay silent, and do.",
        "* g08 (C11): a predicate panic that is not recovered kills the process; this is attributed to C04 (detected there), not to C11.",
        "* rows listed twice were re-run after the check was strengthened; the table shows the latest run.", "",
        "## Changes written by independent sub-agents (seeded/)", "",
        "Each agent was given only the text of one property and its own scratch worktree. A change was kept only after",
        "it was confirmed here: builds, the existing suite passes, the agent's demonstration fails with the change and",
        "passes without it. `first miss` records checks that had to be strengthened before they caught the change.", "",
        "| seeded change | property | needs | caught by | not caught by (and why) |", "|---|---|---|---|---|"]
for d in sorted(glob.glob(os.path.join(V, "seeded", "*", "meta.json"))):
    m = json.load(open(d))
    name = os.path.basename(os.path.dirname(d))
    out.append("| %s | %s | %s | %s | %s |" % (name, m.get("property", "?"), str(m.get("needs", "")).replace("\n", " ").replace("|", "/")[:300],
                                          ", ".join(m.get("caught_by", [])), ", ".join(m.get("missed_by", [])) or "-"))
open(os.path.join(V, "SENSITIVITY.md"), "w").write("\n".join(out) + "\n")
print("rows", len(rows))
