#!/usr/bin/env python3
"""usage: agent_prompt.py <PROP> <k> [hint]  -> creates /tmp/agent-<PROP>-<k> worktree and prints the sub-agent prompt.
The prompt contains only the property text and generic instructions (nothing from /verif's machinery)."""
import json, os, subprocess, sys
prop, k = sys.argv[1], sys.argv[2]
hint = sys.argv[3] if len(sys.argv) > 3 else ""
text = None
for l in open("/verif/properties.jsonl"):
    d = json.loads(l)
    if d["id"] == prop:
        text = d["statement"]
wt = "/tmp/agent-%s-%s" % (prop, k)
out = wt + "-out"
if not os.path.isdir(wt):
    subprocess.check_call(["git", "-C", "/repo", "worktree", "add", "-q", "--detach", wt, "HEAD"])
os.makedirs(out, exist_ok=True)
print(f"""You are working with a Go repository, uber-go/cff: a code generator that compiles cff.Flow / cff.Parallel directives into Go code driving a bounded-worker DAG job scheduler (package scheduler) with panic safety. Your own scratch git worktree of it is at {wt}. Work ONLY in {wt} and in {out}. Never touch /repo, and never read or write anything under /verif.

Environment: sealed sandbox, no network. In EVERY shell call first run: export GOFLAGS=-mod=mod GOPROXY=off GOSUMDB=off GOTOOLCHAIN=local   (the default go is 1.23.5). Running go with -mod=mod inside the worktree may rewrite go.sum; keep go.sum/go.mod out of your patch.

The existing test suite is:  (cd {wt} && go test -count=1 -vet=off ./...)  and  (cd {wt}/internal/tests && go test -count=1 -vet=off ./...).  One test, internal/tests/predicate TestPanicRecovered, already fails on the unchanged tree; ignore it. Note that the *_gen.go files under internal/tests are checked-in generator outputs and the suite does not regenerate them; the generator (internal/*.go and the templates under internal/templates/**) is exercised by internal's own tests (aquaregia_test.go over internal/failing_tests, compile_test.go). You can build the tool with `go build -o {out}/cff ./cmd/cff` and run it on a package containing files tagged `//go:build cff` (see docs/ and internal/tests/Makefile or the go:generate lines for the invocation).

Here is a semantic property that users of cff rely on:

  [{prop}] {text}

YOUR TASK: produce ONE change to the non-test source of the worktree (Go code and/or templates) that makes this property FALSE, such that
 (1) the repository still compiles and `go vet`-less test binaries still build,
 (2) the whole existing test suite, unedited, still passes (apart from the one known failure above),
 (3) it reads like a plausible maintainer edit (a refactoring, an optimisation, a well-meant bug-fix attempt, a simplification), not like sabotage, and
 (4) the violation needs something SPECIFIC to manifest: a particular interleaving or timing, a crash/fault at a particular point, a multi-step sequence of operations, an unusual-but-legal input shape, or two cooperating sites that each look fine alone. It must NOT be something ordinary use would expose at once. Subtle is better than blatant. {hint}

Then demonstrate it. Deliverables, all in {out}/ :
 - patch.diff : `git -C {wt} diff HEAD` (source changes only; must apply with `git apply` on the worktree's HEAD). Do not edit or add tests in the patch, and do not regenerate checked-in *_gen.go files in the patch.
 - demo/ : a self-contained Go module (own go.mod with `replace go.uber.org/cff => {wt}`, go.sum copied from the worktree) with a test or small program that FAILS (or prints the violation and exits non-zero) with your change and PASSES on the unchanged code (verify both by reversing and re-applying your patch with `git apply -R patch.diff` / `git apply patch.diff` in the worktree; do NOT use `git stash`, the stash is shared with other worktrees of the same repository). If the change is in the generator, the demo must contain the cff-tagged source plus a run.sh that builds cff from the worktree, regenerates the demo's code and runs the test. If the violation is schedule dependent, make the demo loop enough that it fails reliably with the change and never without it. Include a short README.md with the exact command.
 - meta.json : {{"property": "{prop}", "summary": "<what was changed and why it breaks the property>", "needs": "<what exactly is needed for the violation to manifest, and which neighbouring cases still behave correctly>", "suite": "<commands you ran for the suite and their results>", "demo": "<command to run the demo; observed result with the change and without>"}}

Leave the worktree with the patch applied (uncommitted). Finish with a brief report: the diff, what it needs, and the demo results with/without.""")
