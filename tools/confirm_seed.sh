#!/bin/sh
# usage: tools/confirm_seed.sh <PROP> <k>
# Confirms a sub-agent change in its scratch worktree /tmp/agent-<PROP>-<k> (patch applied, uncommitted):
# builds, the existing suite passes, the demo fails with the change and passes without it.
export GOFLAGS=-mod=mod GOPROXY=off GOSUMDB=off GOTOOLCHAIN=local
wt=/tmp/agent-$1-$2; out=$wt-out
cd $wt || exit 2
git diff HEAD --stat | tail -3
( cd $wt && git apply --check -R $out/patch.diff ) && echo "patch.diff == worktree diff: applies in reverse OK"
go build ./... && echo "BUILD ok" || echo "BUILD FAILED"
r1=$(go test -count=1 -vet=off ./... 2>&1 | grep -v "^ok\|no test files" | head -5); echo "SUITE root: ${r1:-all ok}"
r2=$(cd internal/tests && go test -count=1 -vet=off ./... 2>&1 | grep -v "^ok\|no test files" | grep -E "^(FAIL|---|panic)" | head -8); echo "SUITE internal/tests (TestPanicRecovered is the baseline failure): $r2"
git checkout -- go.sum go.mod internal/tests/go.sum internal/tests/go.mod 2>/dev/null
rundemo() { if [ -x $out/demo/run.sh ]; then (cd $out/demo && ./run.sh) ; else (cd $out/demo && go test -count=1 -vet=off ./...); fi; }
rundemo > /tmp/demo-with.$$ 2>&1; echo "DEMO with change: exit=$? $(grep -E '^(--- FAIL|FAIL|ok|PASS)' /tmp/demo-with.$$ | head -4 | tr '\n' ' ')"
# reverse and re-apply the patch (git stash is shared between worktrees and mishandles new files)
git apply -R $out/patch.diff || echo "!! could not reverse the patch"
rundemo > /tmp/demo-without.$$ 2>&1; echo "DEMO without change: exit=$? $(grep -E '^(--- FAIL|FAIL|ok|PASS)' /tmp/demo-without.$$ | head -4 | tr '\n' ' ')"
git checkout -- go.sum go.mod internal/tests/go.sum internal/tests/go.mod 2>/dev/null
git apply $out/patch.diff && echo "patch restored"
rm -f /tmp/demo-with.$$ /tmp/demo-without.$$
