#!/usr/bin/env python3
"""Regenerates the per-property table of DESIGN.md section 0 from driver/plan.py and seeded/*/meta.json."""
import glob, json, os, re, sys
V = os.path.dirname(os.path.dirname(os.path.abspath(__file__)))
sys.path.insert(0, os.path.join(V, "driver"))
import plan as PLAN
caught = {}
for d in sorted(glob.glob(os.path.join(V, "seeded", "*", "meta.json"))):
    m = json.load(open(d))
    for p in m.get("caught_by", []):
        caught.setdefault(p, []).append(os.path.basename(os.path.dirname(d)))
mut = {}
for f in glob.glob(os.path.join(V, "SENSITIVITY*.json")):
    for r in json.load(open(f)):
        for p, c in r.get("checks", {}).items():
            if c.get("violation"):
                mut.setdefault(p, set()).add(r["mutant"].split("-")[0])
lines = ["| id | stages run by `./check <id>` (quick budget per shard; thorough in brackets) | hand-written mutants caught | sub-agent changes caught |", "|---|---|---|---|"]
for pid in sorted(PLAN.PROPS):
    st = []
    for s in PLAN.PROPS[pid]["stages"]:
        if s.get("probe_only"):
            continue
        st.append("%s x%d shards: %d [%d]" % (s["name"], s.get("shards", 1), s["checks"]["quick"], s["checks"]["thorough"]))
    lines.append("| %s | %s | %s | %s |" % (pid, "; ".join(st), " ".join(sorted(mut.get(pid, []))) or "-", ", ".join(caught.get(pid, [])) or "-"))
table = "\n".join(lines)
p = os.path.join(V, "DESIGN.md")
s = open(p).read()
b, e = "<!-- BEGIN GENERATED TABLE -->", "<!-- END GENERATED TABLE -->"
if b in s:
    s = s[:s.index(b) + len(b)] + "\n" + table + "\n" + s[s.index(e):]
    open(p, "w").write(s)
    print("table updated")
else:
    print(table)
