#!/bin/sh
# usage: tools/sweep.sh <seed> [tier] [props...]   runs the registered checks one after another, prints verdict + wall time
seed=${1:-1}; tier=${2:-quick}; shift; shift
props=${*:-C01 C02 C03 C04 C05 C06 C07 C08 C09 C10 C11 C12 C13 C14 C15 C16 C17 C18 C19 C20}
cd "$(dirname "$0")/.."
for p in $props; do
  s=$(date +%s)
  out=$(VERIF_SEED=$seed ./check $p --tier $tier 2>&1); rc=$?
  e=$(date +%s)
  echo "$p seed=$seed tier=$tier exit=$rc wall=$((e-s))s $(echo "$out" | grep -E '^(OK|VIOLATION|INCONCLUSIVE)' | head -3 | cut -c1-200)"
done
