#!/usr/bin/env python3
"""usage: archive_seed.py <agent-out-dir> <seed-name> <caught-by csv> <missed-by csv> <verified text>
Copies patch.diff, demo/ and the agent's meta into /verif/seeded/<seed-name>/ and adds what was run here."""
import json, os, shutil, sys
src, name, caught, missed, verified = sys.argv[1:6]
dst = os.path.join("/verif/seeded", name)
os.makedirs(dst, exist_ok=True)
shutil.copy(os.path.join(src, "patch.diff"), dst)
if os.path.isdir(os.path.join(src, "demo")):
    shutil.copytree(os.path.join(src, "demo"), os.path.join(dst, "demo"), dirs_exist_ok=True, ignore=shutil.ignore_patterns("cff", ".cff", "cff.bin", ".bin", "bin", "*.test"))
meta = {}
try:
    meta = json.load(open(os.path.join(src, "meta.json")))
except Exception as e:
    meta = {"note": "agent meta.json unreadable: %s" % e}
meta["origin"] = "independent sub-agent given only the property text and a scratch worktree"
meta["confirmed_here"] = verified
meta["caught_by"] = [x for x in caught.split(",") if x]
meta["missed_by"] = [x for x in missed.split(",") if x]
json.dump(meta, open(os.path.join(dst, "meta.json"), "w"), indent=1)
print("archived", dst)
