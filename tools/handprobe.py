#!/usr/bin/env python3
"""usage: handprobe.py <dir-with-*.go> : each file is a complete cff-tagged source of package p.
Runs the cff binary built from /repo on each (own scratch module under /dev/shm) and reports
ACCEPT-OK / ACCEPT-BROKEN (output does not vet) / REJECT (clean) / CRASH. Hand-probing aid only."""
import os, shutil, subprocess, sys, glob
env = dict(os.environ, GOFLAGS="-mod=mod", GOPROXY="off", GOSUMDB="off", GOTOOLCHAIN="local")
root = "/dev/shm/hp"
os.makedirs(root, exist_ok=True)
cff = os.path.join(root, "cff")
subprocess.check_call(["go", "build", "-o", cff, "./cmd/cff"], cwd="/repo", env=dict(env, GOFLAGS=""))
for src in sorted(glob.glob(os.path.join(sys.argv[1], "*.go"))):
    name = os.path.basename(src)[:-3]
    mod = os.path.join(root, "m-" + name)
    shutil.rmtree(mod, ignore_errors=True)
    os.makedirs(os.path.join(mod, "p"))
    open(os.path.join(mod, "go.mod"), "w").write("module vcase\n\ngo 1.19\n\nrequire go.uber.org/cff v0.0.0\n\nreplace go.uber.org/cff => /repo\n")
    shutil.copy("/repo/go.sum", os.path.join(mod, "go.sum"))
    parts = open(src).read().split("\n// ---file: ")
    open(os.path.join(mod, "p", "probe.go"), "w").write(parts[0] + "\n")
    for extra in parts[1:]:
        fn, body = extra.split("\n", 1)
        open(os.path.join(mod, "p", fn.strip()), "w").write(body)
    flags = []
    first = open(src).readline()
    if first.startswith("// flags:"):
        flags = first[len("// flags:"):].split()
    r = subprocess.run([cff] + flags + ["vcase/p"], cwd=mod, env=env, capture_output=True, text=True)
    o = r.stdout + r.stderr
    if "panic:" in o or "goroutine " in o or r.returncode not in (0, 1):
        print("%-28s CRASH   %s" % (name, o.strip()[-400:].replace("\n", " | "))); continue
    if r.returncode != 0:
        print("%-28s REJECT  %s" % (name, o.strip()[-300:].replace("\n", " | "))); continue
    v = subprocess.run(["go", "vet", "./..."], cwd=mod, env=env, capture_output=True, text=True)
    if v.returncode != 0:
        print("%-28s ACCEPT-BROKEN %s" % (name, (v.stdout + v.stderr).strip()[-500:].replace("\n", " | "))); continue
    if glob.glob(os.path.join(mod, "p", "*_test.go")):
        t = subprocess.run(["go", "test", "-count=1", "./p"], cwd=mod, env=env, capture_output=True, text=True)
        if t.returncode != 0:
            print("%-28s ACCEPT-TESTFAIL %s" % (name, (t.stdout + t.stderr).strip()[-700:].replace("\n", " | "))); continue
    gen = os.path.exists(os.path.join(mod, "p", "probe_gen.go"))
    print("%-28s ACCEPT-OK%s" % (name, "" if gen else " (no output file)"))
    if "--keep" not in sys.argv:
        shutil.rmtree(mod, ignore_errors=True)
