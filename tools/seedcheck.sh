#!/bin/sh
# usage: tools/seedcheck.sh <patch.diff> <PROP> [PROP...]
# Applies the patch to a scratch worktree of /repo, runs the given checks
# against it (VERIF_REPO), prints the verdicts, removes the worktree.
set -u
export GOFLAGS=-mod=mod GOPROXY=off GOSUMDB=off GOTOOLCHAIN=local
patch=$1; shift
wt=/tmp/seed-wt-$$
git -C /repo worktree add --detach $wt HEAD >/dev/null 2>&1 || exit 2
( cd $wt && git apply "$patch" ) || { echo "patch does not apply"; git -C /repo worktree remove --force $wt; exit 2; }
( cd $wt && go build ./... ) || { echo "does not build"; git -C /repo worktree remove --force $wt; exit 2; }
for p in "$@"; do
  out=$(cd /verif && VERIF_REPO=$wt ./check $p 2>&1)
  rc=$?
  echo "== $p exit=$rc"
  echo "$out" | grep -E "^(VIOLATION|OK|KNOWN|INCONCLUSIVE|violation)" | cut -c1-300 | head -8
  for r in $(echo "$out" | grep '^VIOLATION' | sed 's/.*replay=//'); do
    case "$r" in /verif/replays/*) mkdir -p /tmp/seed-replays; mv "$r" /tmp/seed-replays/ 2>/dev/null;; esac
  done
done
git -C /repo worktree remove --force $wt
