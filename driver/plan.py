"""Stage table: which engines decide which property, with what budgets."""

GO = "go"
GO126 = "go1.26.8"


def st(checks_q, checks_t, shards=16, **kw):
    d = dict(name="st", module="sched", go=GO126, test="TestST", shards=shards,
             checks={"quick": checks_q, "thorough": checks_t}, gomaxprocs=[1, 2, 4, 16, 1, 3, 8, 16])
    d.update(kw)
    return d


def rt(checks_q, checks_t, shards=16, **kw):
    d = dict(name="rt", module="sched", go=GO, test="TestRT", shards=shards,
             checks={"quick": checks_q, "thorough": checks_t})
    d.update(kw)
    return d


def ebin(pkgs_q, pkgs_t, shards=16, **kw):
    d = dict(name="bin", module="gen", go=GO, test="TestBin", shards=shards, bin=True,
             checks={"quick": pkgs_q, "thorough": pkgs_t}, timeout={"quick": 900, "thorough": 14400},
             shrinktime={"quick": "40s", "thorough": "240s"})
    d.update(kw)
    return d


BIN_ASSUME = [
    "programs are drawn from the generator's spec language (docs-supported option mixes only); inputs that do not type-check are discarded and counted, never reported",
    "task bodies are supplied by the harness (vcase/rt): values carry provenance tags, every invocation is logged with a global sequence number",
    "the freshly built cff binary, go build and the real scheduler are in the loop; schedules are sampled (task timing, concurrency, simultaneous executions)",
]

SCHED_ASSUME = [
    "job bodies supplied by the harness always terminate (return or runtime.Goexit); jobs are enqueued after their dependencies, on one scheduler, Wait is called once and never before the last Enqueue (the scheduler's documented preconditions)",
    "Go's runtime scheduler and select arm choice are not enumerated: schedules are sampled (task timing, enqueue pacing, GOMAXPROCS, virtual clock and hook-point perturbation are generated inputs)",
    "sequence numbers are taken inside job bodies from one global atomic counter; the goroutine census parses runtime.Stack output",
]

def fuzz(seconds_t, **kw):
    """Native go test -fuzz stage over the E-SCHED-RT property (rapid.MakeFuzz); thorough tier only."""
    d = dict(name="fuzz", module="sched", go=GO, test="FuzzRT", shards=1, fuzz=True,
             checks={"quick": 0, "thorough": seconds_t})
    d.update(kw)
    return d


def stress(cases_q, cases_t, **kw):
    """Real-time stress stage: few small cases with instant job bodies, each executed very many times."""
    d = dict(name="stress", module="sched", go=GO, test="TestStress", shards=16,
             checks={"quick": cases_q, "thorough": cases_t},
             args_tier={"quick": ["-stress=1200"], "thorough": ["-stress=6000"]},
             timeout={"quick": 900, "thorough": 7200})
    d.update(kw)
    return d


STRESS_RULE = ("; stress stage: small cases (<=7 jobs, N<=4, instant bodies, failures / Goexit / cancellation as drawn) each executed 1200 (thorough 6000) times in real time under the full oracle: "
               "rare windows between the scheduler's goroutines are reached by repetition, not by case variety")

PROPS = {}

PROPS["C01"] = dict(
    stages=[st(12000, 400000), rt(2500, 100000), fuzz(150)],
    rule="cases = rapid-generated scheduler executions (DAG with multiset deps drawn from earlier jobs, N, fail-fast/COE, per-job behaviour ok/error/Goexit/cancel, body timing, enqueue pacing incl. await-dependency-finished, ctx layout incl. a private per-job context the job cancels itself, emitter, hook perturbation plan; 2% 'wide' cases with a limit of 60-100 and at least that many jobs in flight); non-trivial = some job has >=2 distinct dependencies, or a duplicated dependency, or is enqueued only after one of its dependencies finished; distinct = hash(DAG, N, mode, behaviours, ctx layout)",
    assumptions=SCHED_ASSUME,
)
PROPS["C03"] = dict(
    stages=[st(10000, 300000), rt(2000, 60000), dict(name="big", module="sched", go=GO, test="TestBig", shards=4, checks={"quick": 6, "thorough": 40})],
    rule="cases as C01 plus capacity scenarios (a prefix of Goexit/ok jobs, then exactly N jobs that meet at an N-party barrier) and large independent job sets (5000 quick / 100000 thorough jobs); oracle = exact in-flight counter inside bodies <= limit, goroutine census inside bodies <= limit+2(+exiting workers), barrier completes; non-trivial = barrier scenario, or in-flight counter reached the limit with more jobs than workers; distinct = hash(case)",
    assumptions=SCHED_ASSUME + ["a worker that is exiting after runtime.Goexit may still be visible in a census: the bound allows one extra goroutine per Goexit job in the case"],
)
PROPS["C05"] = dict(
    stages=[st(12000, 400000), rt(2000, 60000), fuzz(150)],
    rule="cases as C01 with emphasis on failures, Goexit, cancellation (in-job, pre, timer) and a 'parked job' scenario (a job blocks until Wait has returned while the context gets cancelled); oracle = testing/synctest reports 'all goroutines in bubble are blocked' exactly when Wait/Enqueue can never return (real-time flavour: 30s watchdog confirmed by two identical all-blocked goroutine censuses, else inconclusive); non-trivial = fail-fast failure observed while Enqueues were still to come, or a Goexit job, or a cancellation during the run, or the parked-job scenario; distinct = hash(case)",
    assumptions=SCHED_ASSUME + ["liveness is decided as 'no sampled reachable state is a deadlock'; unbounded fairness is out of reach of testing"],
)
PROPS["C06"] = dict(
    stages=[st(12000, 400000), rt(2000, 60000), dict(name="hist", module="sched", go=GO, test="TestHistory", shards=8, checks={"quick": 40, "thorough": 1500})],
    rule="cases as C05; oracle = after Wait returned the root goroutine sleeps a virtual hour and returns: synctest reports 'blocked goroutines remain' exactly when a scheduler goroutine can never exit (real-time flavour: poll until no goroutine runs scheduler code; a leak needs two identical all-blocked censuses); plus stateful histories (rapid state machine) of consecutive and concurrent batches with the census as invariant after every step; non-trivial = fail-fast failing batch with more jobs than workers, or a return on cancellation, or the parked-job scenario; distinct = hash(case)",
    assumptions=SCHED_ASSUME,
)
PROPS["C07"] = dict(
    stages=[st(12000, 400000), rt(2500, 100000), fuzz(150)],
    rule="fail-fast cases with non-empty failing sets (unique error values), incl. jobs enqueued after the failure was observed; oracle = nil => every job ran exactly once and returned nil and ctx not cancelled; non-nil => errors.Is one of the errors of a job that ran and failed (or the Goexit error, or the ctx error when a ctx was cancelled); no started job has a failed transitive dependency; non-trivial = >=2 failing jobs, or a failure with a dependent, or an Enqueue after the first failure finished; distinct = hash(case)",
    assumptions=SCHED_ASSUME,
)
PROPS["C08"] = dict(
    stages=[st(12000, 400000), rt(2500, 100000), fuzz(150)],
    rule="ContinueOnError cases; oracle = exact reference model: ran == {jobs whose transitive dependencies all succeed}, each once; multierr.Errors(err) as a multiset of identities == errors of failed jobs (+ only ctx errors when a cancellation is part of the case); no 'job invalid' sentinel; non-trivial = >=3 failures, or a failed job with a depth>=2 dependent, or a dependent enqueued after its dependency failed; distinct = hash(case)",
    assumptions=SCHED_ASSUME,
)
PROPS["C09"] = dict(
    stages=[st(12000, 400000), rt(2500, 100000), fuzz(150)],
    rule="cases with cancellation (before the first Enqueue, inside a job, from a timer) x ctx layout x N x mode x parked-job scenario; causal oracle: a job is forbidden if it depends on the cancelling job, or was enqueued after cancel() returned, or (N=1, in-job cancel) started after cancel() returned; forbidden jobs never start; Wait returns non-nil when its ctx was surely done; Wait returns while a job is still parked; every body receives the ctx it was enqueued with; non-trivial = cancellation happened and at least one root-ctx job was thereby not started, or pre-cancelled, or parked-job scenario; distinct = hash(case)",
    assumptions=SCHED_ASSUME,
)
PROPS["C19"] = dict(
    stages=[st(12000, 400000), rt(2000, 60000)],
    rule="cases with a recording state emitter (flush 1ns / 1us / default); every report is checked inline: counts >= 0, Concurrency == limit, 0 <= Pending-Ready-Waiting <= Concurrency, IdleWorkers == Concurrency-executing, Pending <= submitted, Waiting <= submitted-with-deps (harness counters incremented before Enqueue, read in the callback), bodies actually running <= executing, executing == dispatched-results (hook events), no report after Wait returned normally; non-trivial = at least one report taken while Ready>0 and executing>0; distinct = hash(case)",
    assumptions=SCHED_ASSUME,
)

PROPS["C12"] = dict(
    stages=[dict(name="race", module="sched", go=GO, race=True, test="TestRace", shards=16,
                 checks={"quick": 1500, "thorough": 60000}, env={"GORACE": "halt_on_error=1"}),
            ebin(1, 20)],
    rule="E-BIN stage: generated flows/parallels compiled with -race and executed under fault/cancel scenarios by user functions that record nothing and take no lock (the only shared data are the generated vN variables, Results targets and scheduler state); scheduler stage: cases as C01 (emphasis: early returns through failure/cancellation, concurrent Enqueue from several goroutines, state emitter) executed by a harness binary built with -race -tags verif in which job bodies share NO harness synchronisation: each job reads plain variables written by its dependencies and writes its own; the caller reads them after Wait returned nil; oracle = Go race detector (halt_on_error) + value visibility; non-trivial = >=2 jobs (a cross-job hand-off or concurrent Enqueue exists); distinct = hash(case)",
    assumptions=SCHED_ASSUME + ["the race detector judges only executed code paths, generalised over the happens-before relation of each observed execution"],
)


def _add_bin(pid, q=1, t=20):
    PROPS[pid]["stages"].append(ebin(q, t))
    PROPS[pid]["rule"] += "; E-BIN stage: generated directives (flows/parallels in all spellings) processed by the freshly built cff binary, compiled and executed under rapid-drawn scenarios, same oracle evaluated on the event log of the generated code"


for _p in ["C01", "C05", "C06", "C07"]:
    PROPS[_p]["stages"].append(stress(8, 200))
    PROPS[_p]["rule"] += STRESS_RULE

for _p in ["C01", "C03", "C05", "C06", "C07", "C08", "C09"]:
    _add_bin(_p)
PROPS["C03"]["rule"] += ("; the E-BIN stage also decides the capacity half through generated code: in rendezvous scenarios every dependency-free function of a clean directive "
                          "(parallel: tasks, element functions, End functions of empty collections; flow: predicate-less tasks and predicates fed by cff.Params only) parks until min(limit, count) of them "
                          "execute at once; a timeout is a verdict only if the whole process is provably stuck; goroutine census = goroutines created by cff / generated code or, transitively, "
                          "from the calling goroutine by non-harness code, excluding goroutines that existed before the call")
for _p in ["C05", "C06"]:
    # stress phase of the inner driver: executions per selected early-stop scenario
    PROPS[_p]["stages"][-1]["args_tier"] = {"quick": ["-hammer=12000"], "thorough": ["-hammer=40000"]}
    PROPS[_p]["rule"] += ("; stress phase: about one in eight faulty/cancelled scenarios is also executed 12000 (thorough 40000) times from 8 goroutines with user functions that return at once, "
                          "record nothing and take no lock (rare windows such as a job finishing at the very moment the directive gives up); a call that never returns counts only if the whole process is "
                          "provably stuck (two identical all-blocked goroutine censuses), blocked scheduler goroutines afterwards are a leak")

PROPS["C02"] = dict(
    stages=[ebin(2, 40)],
    rule="cases = (program, scenario) pairs: rapid-generated well-formed flows (typed DAGs, multi-output tasks, tasks written as literals / top-level functions / method values / imported functions / function variables / factories, local, pointer, named, slice, map, generic, interface, imported and not-imported value types, ctx/error mixes, Invoke tasks, predicates, any listing order, Concurrency absent/constant/expression) run through the freshly built cff binary and go build, then executed under no-failure scenarios (predicate true/false mixes, timings, N, 1..8 simultaneous executions); oracle = reference flow interpreter over provenance tags (each task exactly once or not at all if predicate false, exact inputs, exact Results, nil error); evaluations count scenario executions; non-trivial = flow with >=3 tasks and (multi-output task or ext2 type or non-literal spelling); distinct = hash(spec)",
    assumptions=BIN_ASSUME,
)
PROPS["C04"] = dict(
    stages=[ebin(2, 40)],
    rule="programs as C02 plus parallels (Task/Tasks/Slice/Map/SliceEnd/MapEnd); scenarios inject panics (string, error, runtime error, struct, pointer values) into any subset of user functions of every kind, under fail-fast and ContinueOnError, with unfaulted sibling executions running concurrently; the inner driver is a separate process: an escaped panic kills it and is reported from its eager log; oracle = directive returns, errors.As yields *cff.PanicError whose Value is identical to an injected value of a function that ran (unless FallbackWith absorbed it), siblings return nil with exact results; non-trivial = program has a predicate / End hook / element function, or >=2 units; distinct = hash(spec); panic-first scenarios (the inner driver is built with the scheduler's hook points, tag verif): one dependency-free function panics at once while every other dependency-free function parks until the Scheduler Loop has received and finished processing a result - which can only be that panic - and only then fails: a fail-fast directive recorded the panic first and must report it",
    assumptions=BIN_ASSUME,
)
PROPS["C10"] = dict(
    stages=[ebin(2, 40)],
    rule="generated cff.Parallel programs mixing Task/Tasks/Slice/Map (index/no-index, ctx/error variants, named slice types, SliceEnd/MapEnd) in a go 1.19 module (loop-variable semantics matter); scenarios: collection sizes nil/0/1/2/3..12 (thorough ..200), no failure, plus element failures for the End-hook clause; oracle = argument log: every task once, slice fn exactly {(i, s[i])}, map fn exactly {(k, m[k])}, End hook once and after the last element call of its own collection, never after a failed element; non-trivial = program has a collection or an End hook; distinct = hash(spec)",
    assumptions=BIN_ASSUME,
)
PROPS["C11"] = dict(
    stages=[ebin(2, 40)],
    rule="flows where tasks carry predicates (own inputs, ctx) and/or FallbackWith; scenarios: predicate outcomes {true,false,panic} x task outcomes {ok,error,panic}; oracle = reference interpreter: predicate at most once with exact inputs and after its providers, false => task never called, consumers/Results see zero tags, flow nil; fallback tags downstream iff task failed/panicked or predicate panicked; non-trivial = program has a predicate or a fallback; distinct = hash(spec)",
    assumptions=BIN_ASSUME,
)
PROPS["C15"] = dict(
    stages=[ebin(2, 40)],
    rule="flows and parallels whose every argument expression (ctx, Params values, Results pointers, Concurrency, ContinueOnError, emitters, instrument names, task/predicate function expressions, FallbackWith values, Slice/Map collections) is wrapped in the logging identity rt.Arg(env,k,e), in all option orders; oracle = Arg log equals 0..n-1 exactly once each, on the calling goroutine, before the first user function starts; values reach their consumer (tag equality); non-trivial = >=4 wrapped expressions; distinct = hash(spec)",
    assumptions=BIN_ASSUME + ["argument expressions do not mention an enclosing variable named err (known finding F9, excluded by construction)"],
)
PROPS["C18"] = dict(
    stages=[ebin(2, 40), dict(name="emstack", module="gen", go=GO, test="TestEmStack", shards=4, checks={"quick": 20000, "thorough": 1000000})],
    rule="instrumented flows/parallels: any subset of tasks with cff.Instrument, InstrumentFlow/Parallel on/off, 1..3 recording emitters incl. nested EmitterStack; all outcome/predicate/fallback combinations (no cancellation); oracle = emitter protocol model per emitter (exactly one Success|Error carrying the returned error, one Done after it; per invoked instrumented task one matching outcome event with the very error/panic value and one TaskDone after it; TaskSkipped exactly once for non-invoked tasks in nil-returning runs; all emitters of a stack record identical multisets); non-trivial = >=2 instrumented tasks or a nested stack; distinct = hash(spec); emstack stage (runtime library, no generator): rapid-drawn construction histories of cff.EmitterStack (literal arguments, slices spread with ... that share a backing array with spare capacity, stacks of stacks, duplicated leaves, the no-op emitter, writes to the source slices after a stack was built) followed by Init calls and events with identifiable arguments (context, error, panic value, duration, info pointers, scheduler state) sent to any built emitter; oracle = each leaf records exactly (multiplicity times, same arguments, script order) the events sent to the emitters it was combined into, and nothing else; non-trivial there = an event was delivered through a stack of >=2 distinct leaves",
    assumptions=BIN_ASSUME,
)


def egen(pkgs_q, pkgs_t, shards=16, **kw):
    d = dict(name="gen", module="gen", go=GO, test="TestGen", shards=shards, gen=True,
             checks={"quick": pkgs_q, "thorough": pkgs_t}, timeout={"quick": 900, "thorough": 14400},
             shrinktime={"quick": "40s", "thorough": "240s"})
    d.update(kw)
    return d


def corpus(q, t, shards=16, **kw):
    d = dict(name="corpus", module="gen", go=GO, test="TestCorpus", shards=shards, gen=True,
             checks={"quick": q, "thorough": t}, timeout={"quick": 900, "thorough": 14400},
             shrinktime={"quick": "40s", "thorough": "240s"})
    d.update(kw)
    return d


CORPUS_RULE = ("; corpus stage (E-CORPUS, metamorphic fuzzing of the programs in /repo/internal/tests): a case = (package, 1-6 semantics-preserving source mutations "
               "[parenthesised argument, comment before an argument, explicit import name with all uses renamed, directive statement wrapped in a block / for{} / switch{default:}, "
               "directive call wrapped in a closure, function literal first stored in a local, copy of the enclosing function, rotated option order, equivalent build-constraint header], mode); "
               "the checked-in outputs are deleted and regenerated by the freshly built cff; oracle: no crash, still accepted, outputs parse / hold no directive / compile without and with the cff tag, "
               "masked-AST equality and constraint truth tables against the mutated source, only documented paths written, second run byte-identical (C17), source-map == base up to comments (C20), "
               "and the package's own tests - which pass on the unmutated program - still pass on the regenerated mutated one (3 of 3 runs, baseline re-confirmed; not judged after an option rotation); "
               "a mutated source that does not type-check under the cff tag is discarded and counted; non-trivial there = at least two mutations applied")
CORPUS_ASSUME = ["corpus stage: the mutation operators preserve the meaning of the program (they change neither the dataflow graph nor any signature); the corpus tests are deterministic (a failure must reproduce 3 of 3 times while the unmutated package passes in the same environment, otherwise the case is inconclusive)"]

GEN_ASSUME = [
    "inputs are packages rendered from the generator's spec language; an input that does not type-check under the cff tag is discarded and counted, never reported",
    "the freshly built cff binary is run as a separate process (cmd/cff/main.go, go/packages and the real go toolchain are in the loop)",
]

PROPS["C13"] = dict(
    stages=[egen(4, 120), ebin(1, 10)],
    rule="cases = generated packages (2-4 files, up to 6 directives each; flows and parallels in all spellings: literals, top-level functions, method values, imported functions, function variables, factories; aliased imports of context and cff; time imported plainly, under an alias, or another package imported under the name time; types from packages the file does not import; generic, interface, pointer, slice, map, named types; rt.Arg-wrapped arguments; build-constraint expressions), in base and source-map modes, with and without -auto-instrument; oracle = cff exits 0 or fails with diagnostics (a Go panic / exit 2 is a violation); every output parses, contains no call of a code-generation directive (AST scan), and the module builds without the cff tag (go build, go vet for generated test files); E-BIN stage additionally runs the programs; evaluations count directives; non-trivial = directive uses a non-default spelling (alias, colliding name, unimported or generic type, non-literal function, wrapped arguments); distinct = hash(spec, mode)",
    assumptions=GEN_ASSUME,
)
PROPS["C14"] = dict(
    stages=[egen(4, 120), dict(name="lattice", module="gen", go=GO, test="TestLattice", shards=1, gen=True, checks={"quick": 1, "thorough": 1})],
    rule="cases = packages of 6-15 files with one flow each; about 2/3 of the flows receive a single-defect mutation (drop a Params value, drop a providing task, second provider task, provider duplicated in Params, task returning a type twice, back edge through a task input or a predicate input at any distance, unused Params value, unconsumed output, stripped Invoke(true)), 1/6 of those a second one; oracle = independent reference well-formedness checker on the abstract spec: ill-formed => cff exits non-zero, a diagnostic names the file, no output file for that file while the other files are still generated; well-formed (incl. mutations that stay well-formed) => accepted and compiling; plus a deterministic Slice/Map element-vs-parameter lattice stage; non-trivial = mutated flow with >=3 tasks; distinct = hash(spec)",
    assumptions=GEN_ASSUME + ["cff.Invoke(true) on a task that has outputs (docs allow, code rejects) is never generated"],
)
PROPS["C16"] = dict(
    stages=[egen(4, 120)],
    rule="cases = generated packages whose files carry drawn build-constraint headers (//go:build, // +build or both; expressions over cff,a,b,c with !, &&, || nesting up to depth 3, usable with cff: selected with cff and the drawn extra tags, excluded without cff), surrounding declarations and several directives per file, x_test.go names; oracle = (i) truth tables over all 16 tag assignments: generated selected == source selected with cff flipped, for the effective constraint and per syntax; (ii) masked-AST equality: every non-import declaration printed with directive calls / generated closures replaced by a placeholder must be identical, imports only added; (iii) directory snapshot (sha256) before/after: only the documented output paths appear, nothing else changes; non-trivial = non-plain header or >=2 directives in the file; distinct = hash(spec, mode)",
    assumptions=GEN_ASSUME,
)
PROPS["C17"] = dict(
    stages=[egen(1, 60)],
    rule="cases = generated packages (collision pressure: aliased/colliding imports, unimported types, many hoisted expressions), base and source-map modes; oracle = byte equality of every output across three fresh cff processes, and of cff -file=f (alone) and -file=f=OUT against the whole-package output; non-trivial = package with >=2 files; distinct = hash(spec, mode)",
    assumptions=GEN_ASSUME,
)
PROPS["C20"] = dict(
    stages=[egen(3, 90), ebin(1, 20)],
    rule="cases = generated packages processed in base and in source-map mode; oracle = outputs parse in both modes and are equal after dropping all comments (incl. /*line*/ directives) and normalising whitespace; no magic token left; the source-map output compiles; non-trivial = file with >=2 directives; distinct = hash(spec, mode). E-BIN differential stage: flows of the modifier-supported subset (Params, Results, Concurrency, plain Tasks in several spellings) are written twice (packages p and pm), processed with -genmode=base resp. -genmode=modifier, compiled into one binary and run under identical scenarios {ok, error, panic}: same nil-ness, same Results tags, error that is an injected fault, Results untouched on failure; the full flow oracle also runs on the modifier-mode code",
    assumptions=GEN_ASSUME,
)

for _p, _q, _t in [("C13", 3, 100), ("C14", 2, 60), ("C16", 2, 60), ("C17", 2, 60), ("C20", 2, 60),
                   ("C02", 2, 50), ("C04", 1, 30), ("C10", 1, 30), ("C11", 2, 50), ("C15", 1, 30), ("C03", 1, 20)]:
    PROPS[_p]["stages"].append(corpus(_q, _t))
    PROPS[_p]["rule"] += CORPUS_RULE
    PROPS[_p]["assumptions"] = PROPS[_p]["assumptions"] + CORPUS_ASSUME

HOOK_COMMITS = ["661e699"]
ENGINES = [
    {"name": "E-SCHED-ST", "path": "sched/st_test.go", "serves_properties": ["C01", "C03", "C05", "C06", "C07", "C08", "C09", "C19"],
     "kind_free_text": "rapid + testing/synctest (go1.26.8): real scheduler in a virtual-time bubble, exact deadlock/leak detection"},
    {"name": "E-SCHED-RT", "path": "sched/rt_test.go", "serves_properties": ["C01", "C03", "C05", "C06", "C07", "C08", "C09", "C12", "C19"],
     "kind_free_text": "rapid, real goroutines and clock on 16 cores; -race flavour for C12; stateful histories for C06; thorough tier adds native go test -fuzz (rapid.MakeFuzz) over the same property"},
    {"name": "E-EMSTACK", "path": "gen/emstack_test.go", "serves_properties": ["C18"],
     "kind_free_text": "rapid: library-level model of cff.EmitterStack (construction histories incl. aliased slices, event scripts with identifiable arguments)"},
]
ENGINES += [
    {"name": "E-BIN", "path": "gen/ebin_test.go", "serves_properties": ["C01", "C02", "C03", "C04", "C05", "C06", "C07", "C08", "C09", "C10", "C11", "C12", "C13", "C15", "C18", "C20"],
     "kind_free_text": "rapid outer loop: spec -> Go module (go 1.19) -> freshly built cff binary -> go test -c -> inner driver (rapid scenario search, reference interpreters in gen/rt)"},
]
ENGINES += [
    {"name": "E-CORPUS", "path": "gen/ecorpus_test.go", "serves_properties": ["C02", "C03", "C04", "C10", "C11", "C13", "C14", "C15", "C16", "C17", "C20"],
     "kind_free_text": "rapid: metamorphic fuzzing of the repository's own cff programs (internal/tests): semantics-preserving source mutations -> freshly built cff -> text oracles + the package's own tests as behavioural oracle"},
    {"name": "E-GEN", "path": "gen/egen_test.go", "serves_properties": ["C13", "C14", "C16", "C17", "C20"],
     "kind_free_text": "rapid: spec -> Go module -> freshly built cff binary (base/source-map, -auto-instrument, -tags, -file) -> text oracles (go/parser, go/build/constraint truth tables, masked AST, sha256 snapshots, reference well-formedness checker) + go build"},
]
NOT_YET = {}
