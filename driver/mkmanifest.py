#!/usr/bin/env python3
"""Regenerates /verif/MANIFEST.json from driver/plan.py (single source of truth)."""
import json, os, sys
HERE = os.path.dirname(os.path.abspath(__file__))
sys.path.insert(0, HERE)
import plan as PLAN

VERIF = os.path.dirname(HERE)
ALL = ["C%02d" % i for i in range(1, 21)]

LEVEL_TEXT = {
    "C01": "Generated-input search (rapid) over scheduler executions with an exact happens-before oracle (global sequence numbers taken inside job bodies). Evidence over sampled DAGs and schedules; not a proof over all interleavings.",
    "C03": "Generated-input search with an exact in-flight counter, a goroutine census taken inside job bodies, and N-party barrier scenarios whose failure synctest reports as a deadlock. Bounded by sampled schedules and job counts (5e3 quick / 1e5 thorough).",
    "C05": "Generated-input search inside testing/synctest bubbles: a case in which Wait/Enqueue can never return is reported exactly (all goroutines durably blocked). Liveness beyond 'no sampled state is a deadlock' is out of reach.",
    "C06": "Generated-input search inside synctest bubbles (exact leak report when the bubble's root returns) plus stateful histories of batches in real time with a goroutine census invariant.",
    "C07": "Generated-input search against a reference model of fail-fast semantics (error identity, exactly-once, no started job below a failure).",
    "C08": "Generated-input search against an exact reference model of ContinueOnError (ran-set equality, multiset equality of error identities, no sentinel).",
    "C09": "Generated-input search with a causal (not temporal) cancellation oracle and a parked-job promptness scenario decided by synctest.",
    "C12": "Generated-input search under the Go race detector with a harness that adds no synchronisation between job bodies.",
    "C19": "Generated-input search with every state report checked inline against harness-side counters and hook events, flush frequency down to 1ns (virtual and real).",
}


def main():
    checks = []
    for pid in ALL:
        if pid not in PLAN.PROPS:
            continue
        spec = PLAN.PROPS[pid]
        engines = "+".join(s["name"] for s in spec["stages"])
        checks.append({
            "property_id": pid,
            "quick_cmd": "./check %s --tier quick" % pid,
            "thorough_cmd": "./check %s --tier thorough" % pid,
            "evidence_file": "/verif/evidence/%s.json" % pid,
            "replay_cmd_template": "./check %s --replay {path}" % pid,
            "engine": engines,
            "level_claimed": {"category": "exploration", "text": LEVEL_TEXT.get(pid, spec.get("level_text", "Generated-input search against an explicit oracle.")), "design_ref": "DESIGN.md section 5, " + pid},
            "level_note": "; ".join(spec.get("assumptions", [])),
            "technique": spec.get("technique", "property-based testing (rapid): generated cases, reference-model / invariant oracle, shrinking to a JSON replay"),
        })
    na = [{"property_id": pid, "reason": PLAN.NOT_YET.get(pid, "check not built yet in this session; see DESIGN.md")} for pid in ALL if pid not in PLAN.PROPS]
    m = {
        "version": 1,
        "setup_cmd": "./setup.sh",
        "hooks": {
            "guard": "verif",
            "enable": "go build/test -tags verif (harness modules use 'replace go.uber.org/cff => /repo')",
            "baseline_off_cmd": "for m in . ./internal/tests; do (cd /repo/$m && GOFLAGS=-mod=mod GOPROXY=off GOSUMDB=off go test -json -vet=off -count=1 -timeout 25m ./...); done",
            "source_commits": PLAN.HOOK_COMMITS,
            "add_only": True,
        },
        "engines": PLAN.ENGINES,
        "checks": checks,
        "not_applicable": na,
        "notes": "All checks are property-based tests (pgregory.net/rapid v1.3.0, go test -fuzz in thorough tiers). Driver: ./check <ID> [--tier quick|thorough] [--replay FILE]; VERIF_SEED selects the rapid PRNG values. Known findings: known_findings.json.",
    }
    with open(os.path.join(VERIF, "MANIFEST.json"), "w") as f:
        json.dump(m, f, indent=1)
        f.write("\n")


if __name__ == "__main__":
    main()
