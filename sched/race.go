package verifsched

import (
	"context"
	"fmt"
	"runtime"
	"sync"
	"sync/atomic"
	"time"

	"go.uber.org/cff/scheduler"
)

// RaceResult is what RunRace observed besides what the race detector prints.
type RaceResult struct {
	WaitErr  error
	Findings []Finding
}

type nopStateEmitter struct{ n int }

func (e *nopStateEmitter) Emit(scheduler.State) { e.n++ }

// RunRace executes the case in the race flavour (C12). The crucial rule: the
// harness adds NO synchronisation between job bodies, so that the only
// happens-before edges between a job and its dependencies, and between the
// jobs and the caller of Wait, are the ones the scheduler itself creates.
// Every job writes a plain variable of its own and reads the plain variables
// of its dependencies (the shape of the generated vN hand-off); the caller
// reads all of them after Wait returned nil. Per-job atomics (written by the
// job, read only by the root goroutine after quiescence) only add edges INTO
// the root.
func RunRace(c *Case, unit time.Duration) *RaceResult {
	jobs := c.effectiveJobs()
	J := len(jobs)
	res := &RaceResult{}
	slots := make([]int, J)
	bad := make([]int, J) // own plain slot per job: first dependency whose value was wrong, +1
	ended := make([]atomic.Int32, J)

	rootCtx, cancel := context.WithCancel(context.Background())
	defer cancel()
	childCtx := context.WithValue(rootCtx, ctxKey{}, "child")
	ownCtx := make([]context.Context, len(jobs))
	ownCancel := make([]context.CancelFunc, len(jobs))
	for j := range jobs {
		if jobs[j].Ctx == COwn {
			ownCtx[j], ownCancel[j] = context.WithCancel(context.Background())
			defer ownCancel[j]()
		}
	}
	ctxFor := func(j int) context.Context {
		switch jobs[j].Ctx {
		case CChild:
			return childCtx
		case CBack:
			return context.Background()
		case COwn:
			return ownCtx[j]
		}
		return rootCtx
	}
	remove := installRaceHook(c.Plan)
	defer remove()

	cfg := scheduler.Config{Concurrency: c.N, ContinueOnError: c.COE}
	switch c.Emit {
	case E1ns:
		cfg.Emitter, cfg.StateFlushFrequency = &nopStateEmitter{}, time.Nanosecond
	case E1us:
		cfg.Emitter, cfg.StateFlushFrequency = &nopStateEmitter{}, time.Microsecond
	case EDefault:
		cfg.Emitter = &nopStateEmitter{}
	}
	errs := newJobErrs(jobs)
	body := func(j int) func(context.Context) error {
		jb := jobs[j]
		return func(ctx context.Context) error {
			for _, d := range jb.Deps {
				if slots[d] != d+1 && bad[j] == 0 {
					bad[j] = d + 1
				}
			}
			switch jb.Kind {
			case KYield:
				for i := 0; i < jb.Arg; i++ {
					runtime.Gosched()
				}
			case KSleep:
				time.Sleep(time.Duration(jb.Arg) * unit)
			}
			slots[j] = j + 1
			if Cancels(jb.Beh) {
				cancel()
			}
			ended[j].Store(1)
			if jb.Ctx == COwn {
				ownCancel[j]()
			}
			switch jb.Beh {
			case BErr, BCancelErr:
				return errs[j]
			case BGoexit:
				runtime.Goexit()
			}
			return nil
		}
	}
	if c.CtxMode == MPre {
		cancel()
	}
	var timerWG sync.WaitGroup
	if c.CtxMode == MTimer {
		timerWG.Add(1)
		go func() {
			defer timerWG.Done()
			time.Sleep(time.Duration(c.TimerAt) * unit)
			cancel()
		}()
	}
	base := map[int64]bool{}
	for _, g := range dumpGoroutines() {
		if g.Sched {
			base[g.ID] = true
		}
	}
	s := cfg.New()
	handles := make([]*scheduler.ScheduledJob, J)
	depSlices := newDepSlices(c)
	enqueue := func(j int) {
		jb := jobs[j]
		switch jb.Pace {
		case PYield:
			runtime.Gosched()
		case PSleep:
			time.Sleep(time.Duration(jb.PArg) * unit)
		}
		deps := depSlices.get(jb.Deps, handles)
		handles[j] = s.Enqueue(ctxFor(j), scheduler.Job{Run: body(j), Dependencies: deps})
	}
	if c.ConcEnq > 1 {
		for _, layer := range layers(jobs) {
			var wg sync.WaitGroup
			for g := 0; g < c.ConcEnq; g++ {
				wg.Add(1)
				go func(g int) {
					defer wg.Done()
					for i := g; i < len(layer); i += c.ConcEnq {
						enqueue(layer[i])
					}
				}(g)
			}
			wg.Wait()
		}
	} else {
		for j := 0; j < J; j++ {
			enqueue(j)
		}
	}
	var waitCtx context.Context = rootCtx
	switch c.WaitCtx {
	case WBack:
		waitCtx = context.Background()
	case WOwnCancelled:
		wc, wcancel := context.WithCancel(context.Background())
		wcancel()
		waitCtx = wc
	}
	res.WaitErr = s.Wait(waitCtx)
	if res.WaitErr == nil {
		// The caller may read every value without further synchronisation.
		for j := 0; j < J; j++ {
			if slots[j] != j+1 {
				res.Findings = append(res.Findings, Finding{"C12", fmt.Sprintf("Wait returned nil but the value written by job %d is not visible to the caller", j)})
			}
			if bad[j] != 0 {
				res.Findings = append(res.Findings, Finding{"C12", fmt.Sprintf("job %d did not see the value written by its dependency %d", j, bad[j]-1)})
			}
		}
	}
	timerWG.Wait()
	if d := awaitNoSchedGoroutines(10*time.Second, base); d != "" {
		// a leak is C06's business; here it only means we cannot wait for quiescence
		return res
	}
	if res.WaitErr != nil {
		for j := 0; j < J; j++ {
			if ended[j].Load() == 1 && bad[j] != 0 {
				res.Findings = append(res.Findings, Finding{"C12", fmt.Sprintf("job %d did not see the value written by its dependency %d", j, bad[j]-1)})
			}
		}
	}
	return res
}
