//go:build go1.25

package verifsched

import (
	"fmt"
	"strings"
	"testing"
	"time"

	"pgregory.net/rapid"
)

var stMode = Mode{ST: true, Unit: time.Nanosecond}

// classifyBubblePanic attributes a synctest bubble failure.
//   - "deadlock: all goroutines in bubble are blocked": Wait or Enqueue can
//     never return (C05), or - in a barrier case - capacity was lost (C03).
//   - "main bubble goroutine has exited but blocked goroutines remain":
//     goroutines survived the directive (C06).
func classifyBubblePanic(c *Case, msg string) []Finding {
	switch {
	case strings.Contains(msg, "blocked goroutines remain"):
		return []Finding{{"C06", "goroutines remain blocked forever after Wait returned and every job body finished (synctest): " + msg}}
	case strings.Contains(msg, "deadlock"):
		p := "C05"
		what := "Wait or Enqueue can never return"
		if c.Barrier > 0 {
			p, what = "C03", fmt.Sprintf("%d simultaneously runnable jobs never ran concurrently (capacity lost)", c.Barrier)
		}
		fs := []Finding{{p, what + ": every goroutine is durably blocked (synctest): " + msg}}
		if c.Gate > 0 {
			// the promptness scenario of C09: the context was cancelled while a
			// job is parked until Wait has returned
			fs = append(fs, Finding{"C09", "Wait did not return although its context was cancelled while a job was still running: every goroutine is durably blocked (synctest): " + msg})
		}
		return fs
	}
	return nil
}

func runST(rt *rapid.T, c *Case, m Mode) (h *Hist, fs []Finding) {
	defer func() {
		if r := recover(); r != nil {
			msg := fmt.Sprint(r)
			if e, ok := r.(error); ok {
				msg = e.Error()
			}
			if f := classifyBubblePanic(c, msg); f != nil {
				h, fs = nil, f
				return
			}
			panic(r)
		}
	}()
	rapid.SyncTest(rt, func(rt *rapid.T) {
		h = Run(c, m)
	})
	return h, Check(c, h)
}

// TestST is the virtual-time engine (E-SCHED-ST): the whole execution runs in
// a testing/synctest bubble, so deadlocks and leaked goroutines are decided
// exactly by the runtime, and hook sleeps act as schedule control.
func TestST(t *testing.T) {
	m := stMode
	m.SampleGoroutines = *flagProp == "C03"
	repsAfterFailure = 4
	if r, ok := loadReplay(t); ok {
		rapid.Check(t, func(rt *rapid.T) {
			_, fs := runST(rt, r.Case, m)
			if mine, _ := relevant(fs); len(mine) > 0 {
				rt.Fatalf("replay reproduces:\n%s", fmtFindings(mine))
			}
		})
		return
	}
	prof := profileFor(*flagProp, *flagTier == "thorough")
	log := openLog("st")
	defer log.close()
	rapid.Check(t, func(rt *rapid.T) {
		c := GenCase(rt, prof)
		for rep := 0; rep < reps(); rep++ {
			h, fs := runST(rt, c, m)
			mine, other := relevant(fs)
			log.add(c, NonTrivial(*flagProp, c, h), other, extras(h))
			if len(mine) > 0 {
				failedOnce.Store(true)
				writeFail("st", c, mine)
				rt.Fatalf("case %s\n%s", c.JSON(), fmtFindings(mine))
			}
		}
	})
}
