package verifsched

import (
	"crypto/sha256"
	"fmt"
	"os"
	"path/filepath"
	"testing"
	"time"

	"pgregory.net/rapid"
)

// FuzzRT is the coverage-guided flavour of E-SCHED-RT (thorough tier only):
// Go's native fuzzer mutates the byte stream from which rapid draws the case,
// guided by coverage of the scheduler package. The oracle is the same Check.
// Every worker process appends to its own case log; the failing case is
// written as a JSON replay by writeFail before the fuzzer records its crasher,
// so the reproducible unit is the case, not the fuzzer's byte string.
func FuzzRT(f *testing.F) {
	m := rtMode
	m.SampleGoroutines = *flagProp == "C03"
	prof := profileFor(*flagProp, false)
	var log *caseLog
	if *flagOut != "" {
		log = &caseLog{engine: "fuzz"}
		fp, err := os.OpenFile(filepath.Join(*flagOut, fmt.Sprintf("cases-%s-fuzz-%d.jsonl", *flagProp, os.Getpid())), os.O_APPEND|os.O_CREATE|os.O_WRONLY, 0o644)
		if err == nil {
			log.f = fp
		}
	} else {
		log = &caseLog{}
	}
	// Seed corpus: rapid reads the fuzz input as a stream of 64-bit words and
	// discards inputs that run out of data, so an empty corpus yields almost
	// only discarded executions. Seed with deterministic pseudo-random buffers
	// of several sizes (sha256 chains; no RNG, no clock).
	for i := 0; i < 24; i++ {
		f.Add(seedBytes(i, (32<<10)<<(i%4)))
	}
	f.Fuzz(rapid.MakeFuzz(func(rt *rapid.T) {
		c := GenCase(rt, prof)
		h, inc := RunWithWatchdog(c, m, 30*time.Second)
		if inc != nil {
			writeInconclusive(inc.Error())
			if !settle(90 * time.Second) {
				writeInconclusive("stopped: an abandoned scheduler is still alive, its hook events would pollute further cases")
				os.Exit(0)
			}
			rt.Skip(inc.Error())
		}
		mine, other := relevant(Check(c, h))
		log.add(c, NonTrivial(*flagProp, c, h), other, extras(h))
		if h.Hang != "" && len(mine) == 0 {
			writeInconclusive("stopped after a hang that belongs to another property")
			os.Exit(0)
		}
		if len(mine) > 0 {
			writeFail("fuzz", c, mine)
			rt.Fatalf("case %s\n%s", c.JSON(), fmtFindings(mine))
		}
	}))
}

func seedBytes(i, n int) []byte {
	out := make([]byte, 0, n+32)
	h := sha256.Sum256([]byte(fmt.Sprintf("verif-seed-%d", i)))
	for len(out) < n {
		out = append(out, h[:]...)
		h = sha256.Sum256(h[:])
	}
	return out[:n]
}
