//go:build !verif

package verifsched

const hooksEnabled = false

func installHook(plan [][]int, m Mode, h *Hist) (remove func()) { return func() {} }

func installRaceHook(plan [][]int) (remove func()) { return func() {} }
