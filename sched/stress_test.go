package verifsched

import (
	"os"
	"testing"
	"time"

	"pgregory.net/rapid"
)

// TestStress is the real-time stress flavour: rare windows between the
// scheduler's goroutines (a result posted at the very moment the loop leaves,
// a wake-up sent just before its receiver parks) are reached by executing one
// small case with instant job bodies very many times, not by drawing many
// cases. Every execution is judged by the full oracle; a hang needs the
// stable all-blocked census, as everywhere.
func TestStress(t *testing.T) {
	m := rtMode
	if r, ok := loadReplay(t); ok {
		for i := 0; i < 20000; i++ {
			h, inc := RunWithWatchdog(r.Case, m, 30*time.Second)
			if inc != nil {
				t.Skipf("%v", inc)
			}
			if mine, _ := relevant(Check(r.Case, h)); len(mine) > 0 {
				t.Fatalf("replay reproduces:\n%s", fmtFindings(mine))
			}
		}
		return
	}
	prof := profileFor(*flagProp, false)
	prof.MaxJobs, prof.MaxN = 7, 4
	prof.PGate, prof.PBarrier, prof.PPlan, prof.PEmit = 0, 0, 0, 0.1
	log := openLog("stress")
	defer log.close()
	rapid.Check(t, func(rt *rapid.T) {
		c := GenCase(rt, prof)
		for j := range c.Jobs {
			c.Jobs[j].Kind, c.Jobs[j].Arg = KInstant, 0
			if c.Jobs[j].Pace != PAwait {
				c.Jobs[j].Pace, c.Jobs[j].PArg = PNone, 0
			}
		}
		if c.CtxMode == MTimer {
			c.TimerAt = 0
		}
		c.Repeat = *flagStress
		for rep := 0; rep < *flagStress; rep++ {
			h, inc := RunWithWatchdog(c, m, 30*time.Second)
			if inc != nil {
				writeInconclusive(inc.Error())
				if !settle(90 * time.Second) {
					writeInconclusive("stopped: an abandoned scheduler is still alive, its hook events would pollute further cases")
					log.close()
					os.Exit(0)
				}
				rt.Skip(inc.Error())
			}
			mine, other := relevant(Check(c, h))
			if rep == 0 {
				ex := extras(h)
				if ex == nil {
					ex = map[string]int64{}
				}
				ex["stress_executions"] = int64(*flagStress)
				log.add(c, NonTrivial(*flagProp, c, h), other, ex)
			}
			if len(mine) > 0 {
				writeFail("stress", c, mine)
				// schedule dependent: rapid cannot shrink it; the case is small already
				t.Logf("case %s (execution %d of %d)\n%s", c.JSON(), rep+1, *flagStress, fmtFindings(mine))
				t.FailNow()
			}
			if h.Hang != "" {
				writeInconclusive("stopped after a hang that belongs to another property")
				log.close()
				return
			}
		}
	})
}
