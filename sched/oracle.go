package verifsched

import (
	"context"
	"errors"
	"fmt"
	"sort"
	"strings"

	"go.uber.org/multierr"
)

// Finding is one oracle violation, attributed to a property.
type Finding struct {
	Prop string `json:"prop"`
	Msg  string `json:"msg"`
}

const goexitMsg = "job exited unexpectedly"

func isCtxErr(err error) bool {
	return errors.Is(err, context.Canceled) || errors.Is(err, context.DeadlineExceeded)
}

// model computes, ignoring cancellation, which jobs can run: a job can run
// iff all of its dependencies can run and succeed.
func modelCanRun(jobs []Job) []bool {
	can := make([]bool, len(jobs))
	for j, jb := range jobs {
		ok := true
		for _, d := range jb.Deps {
			if !can[d] || Fails(jobs[d].Beh) {
				ok = false
				break
			}
		}
		can[j] = ok
	}
	return can
}

// Check evaluates every oracle on one execution.
func Check(c *Case, h *Hist) []Finding {
	var out []Finding
	add := func(prop, f string, a ...interface{}) {
		out = append(out, Finding{prop, fmt.Sprintf(f, a...)})
	}
	if h.Hang != "" {
		p := "C05"
		if c.Barrier > 0 {
			p = "C03"
		}
		add(p, "execution hung: Wait/Enqueue did not return and every goroutine is blocked:\n%s", h.Hang)
		if c.Gate > 0 {
			add("C09", "Wait did not return although its context was cancelled while a job was still running:\n%s", h.Hang)
		}
		return out
	}
	if l, _ := h.Livelock.Load().(string); l != "" {
		add("C05", "livelock: %s", l)
		return out
	}
	jobs := c.effectiveJobs()
	J := len(jobs)
	started := func(j int) bool { return h.Starts[j].Load() > 0 }
	rootDerived := func(j int) bool { return jobs[j].Ctx == CRoot || jobs[j].Ctx == CChild }

	// ---- C01: dependencies first, at most once -------------------------
	for j := 0; j < J; j++ {
		n := h.Starts[j].Load()
		if n > 1 {
			add("C01", "job %d was executed %d times", j, n)
		}
		if n == 0 {
			continue
		}
		ss := h.StartSeq[j].Load()
		for _, d := range jobs[j].Deps {
			es := h.EndSeq[d].Load()
			switch {
			case es == 0:
				add("C01", "job %d started (seq %d) although its dependency %d never finished", j, ss, d)
			case es > ss:
				add("C01", "job %d started (seq %d) before its dependency %d finished (seq %d)", j, ss, d, es)
			case Fails(jobs[d].Beh):
				add("C01", "job %d ran although its dependency %d failed", j, d)
			}
		}
	}

	// facts shared by several oracles
	var ranFailed []int
	goexitRan := 0
	for j := 0; j < J; j++ {
		if started(j) && Fails(jobs[j].Beh) {
			ranFailed = append(ranFailed, j)
			if jobs[j].Beh == BGoexit {
				goexitRan++
			}
		}
	}
	cancelSeq := h.CancelSeq.Load()
	cancelled := cancelSeq != 0
	injobCancelRan := false
	for j := 0; j < J; j++ {
		if Cancels(jobs[j].Beh) && started(j) {
			injobCancelRan = true
		}
	}
	// waitCtx was certainly done before Wait decided what to return
	waitCtxSurelyDone := c.WaitCtx == WOwnCancelled ||
		(c.WaitCtx == WRoot && (c.CtxMode == MPre || injobCancelRan))
	anyCtxTrouble := cancelled || c.WaitCtx == WOwnCancelled

	// transitive failed-ancestor relation
	failedAnc := make([]bool, J)
	for j := 0; j < J; j++ {
		for _, d := range jobs[j].Deps {
			if failedAnc[d] || Fails(jobs[d].Beh) {
				failedAnc[j] = true
			}
		}
	}

	// ---- C07: fail-fast soundness ---------------------------------------
	if !c.COE {
		if h.WaitErr == nil {
			for j := 0; j < J; j++ {
				n := h.Starts[j].Load()
				switch {
				case n == 0:
					add("C07", "Wait returned nil but job %d never ran", j)
				case n > 1:
					add("C07", "Wait returned nil but job %d ran %d times", j, n)
				case Fails(jobs[j].Beh):
					add("C07", "Wait returned nil but job %d ran and failed", j)
				}
			}
			if waitCtxSurelyDone {
				add("C07", "Wait returned nil although its context was cancelled before it could return")
			}
		} else {
			ok := false
			for _, j := range ranFailed {
				if jobs[j].Beh == BGoexit {
					if h.WaitErr.Error() == goexitMsg {
						ok = true
					}
				} else if veryErr(h.WaitErr, h.Errs[j]) {
					ok = true
				}
			}
			if !ok && anyCtxTrouble && isCtxErr(h.WaitErr) {
				ok = true
			}
			if !ok {
				add("C07", "Wait returned %q which is not the error of any job that ran and failed (ran+failed=%v, ctx cancelled=%v)", h.WaitErr.Error(), ranFailed, anyCtxTrouble)
			}
		}
		for j := 0; j < J; j++ {
			if started(j) && failedAnc[j] {
				add("C07", "job %d ran although a job it transitively depends on failed", j)
			}
		}
	}
	if len(ranFailed) > 0 && h.WaitErr == nil {
		add(map[bool]string{false: "C07", true: "C08"}[c.COE], "jobs %v ran and failed but Wait returned nil", ranFailed)
	}

	// ---- C08: ContinueOnError -------------------------------------------
	if c.COE {
		can := modelCanRun(jobs)
		for j := 0; j < J; j++ {
			n := h.Starts[j].Load()
			switch {
			case !can[j] && n > 0:
				add("C08", "job %d ran although a job it transitively depends on failed", j)
			case can[j] && n > 1:
				add("C08", "job %d ran %d times", j, n)
			case can[j] && n == 0 && !anyCtxTrouble:
				add("C08", "job %d did not run although all its transitive dependencies succeeded", j)
			}
		}
		entries := multierr.Errors(h.WaitErr)
		jobEntries := map[int]int{}
		goexitEntries, ctxEntries, other := 0, 0, []string{}
		for _, e := range entries {
			var je *jobErr
			switch {
			case errors.As(e, &je):
				jobEntries[je.j]++
			case e.Error() == goexitMsg:
				goexitEntries++
			case isCtxErr(e):
				ctxEntries++
			default:
				other = append(other, e.Error())
			}
			if strings.Contains(e.Error(), "job invalid") {
				add("C08", "internal sentinel %q leaked into the returned error", e.Error())
			}
		}
		if len(other) > 0 {
			add("C08", "returned error contains entries that are neither a job's error nor a context error: %q", other)
		}
		// several jobs may return one shared error instance: one entry per failed job
		wantEntries := map[int]int{}
		for _, j := range ranFailed {
			if jobs[j].Beh != BGoexit {
				wantEntries[h.Errs[j].j]++
			}
		}
		bareCtx := len(entries) == 1 && ctxEntries == 1 && anyCtxTrouble
		if !bareCtx {
			wantGoexit := 0
			for _, j := range ranFailed {
				if jobs[j].Beh == BGoexit {
					wantGoexit++
					continue
				}
				if own := h.Errs[j].j; jobEntries[own] != wantEntries[own] {
					add("C08", "job %d ran and failed but its error value appears %d times in the returned error (%d jobs that ran and failed returned that value)", j, jobEntries[own], wantEntries[own])
				}
			}
			if goexitEntries != wantGoexit {
				add("C08", "%d jobs exited their goroutine but the returned error has %d such entries", wantGoexit, goexitEntries)
			}
		}
		for j, n := range jobEntries {
			if wantEntries[j] == 0 {
				add("C08", "returned error contains the error value of job %d (%d times) which no job that ran and failed returned", j, n)
			} else if n > wantEntries[j] {
				add("C08", "returned error contains the error value of job %d %d times, but only %d jobs that ran and failed returned it", j, n, wantEntries[j])
			}
		}
		if ctxEntries > 0 && !anyCtxTrouble {
			add("C08", "returned error contains a context error although no context was cancelled")
		}
		notStarted := 0
		for j := 0; j < J; j++ {
			if !started(j) {
				notStarted++
			}
		}
		if !bareCtx && ctxEntries > notStarted+1 {
			add("C08", "returned error contains %d context errors but only %d jobs were skipped", ctxEntries, notStarted)
		}
		if waitCtxSurelyDone && h.WaitErr == nil {
			add("C08", "Wait returned nil although its context was cancelled before it could return")
		}
	}

	// ---- C09: cancellation ------------------------------------------------
	{
		// descendants of a cancelling job that ran
		cancDesc := make([]bool, J)
		for j := 0; j < J; j++ {
			for _, d := range jobs[j].Deps {
				if cancDesc[d] || Cancels(jobs[d].Beh) {
					cancDesc[j] = true
				}
			}
		}
		for j := 0; j < J; j++ {
			if !started(j) || !rootDerived(j) {
				continue
			}
			ss := h.StartSeq[j].Load()
			switch {
			case c.CtxMode == MPre:
				add("C09", "job %d started although the context was cancelled before the first Enqueue", j)
			case cancDesc[j]:
				add("C09", "job %d started although it depends on the job that cancelled the context", j)
			case cancelled && h.EnqSeq[j] > cancelSeq:
				add("C09", "job %d started although it was enqueued (seq %d) after the context was cancelled (seq %d)", j, h.EnqSeq[j], cancelSeq)
			case cancelled && injobCancelRan && c.CtxMode == MNone && h.Limit == 1 && ss > cancelSeq:
				add("C09", "with one worker, job %d started (seq %d) after the context was cancelled inside another job (seq %d)", j, ss, cancelSeq)
			}
		}
		// cancellation injected while a worker held a job it had not examined
		// yet: that worker - and only it is judged - saw cancel() return before
		// it looked at the job, so nothing it handles from then on may start
		// (same goroutine, later in program order: no race involved)
		if gg, gs := h.CancelGotGid.Load(), h.CancelGotSeq.Load(); gs != 0 {
			for j := 0; j < J; j++ {
				if started(j) && rootDerived(j) && h.Gid[j].Load() == gg && h.StartSeq[j].Load() > gs {
					add("C09", "job %d was started (seq %d) by a worker that had received it and then seen the context cancelled (cancel() returned at seq %d on that worker's goroutine) before it examined the job", j, h.StartSeq[j].Load(), gs)
				}
			}
		}
		if waitCtxSurelyDone && h.WaitErr == nil {
			add("C09", "Wait returned nil although its context was cancelled before it could return")
		}
		for j := 0; j < J; j++ {
			if h.CtxBad[j].Load() != 0 {
				add("C09", "job %d did not receive the context it was enqueued with", j)
			}
		}
	}

	// ---- C03: bounded concurrency ------------------------------------------
	if mi := int(h.MaxInflight.Load()); mi > h.Limit {
		add("C03", "%d job bodies were executing at once; the limit is %d", mi, h.Limit)
	}
	{
		goexits := 0
		for _, jb := range jobs {
			if jb.Beh == BGoexit {
				goexits++
			}
		}
		bound := h.Limit + 2 + goexits
		for _, n := range h.GoroutineSamples {
			if n > bound {
				add("C03", "%d goroutines were running scheduler code; the bound for limit %d (+2 loop/spawner, +%d exiting workers) is %d", n, h.Limit, goexits, bound)
				break
			}
		}
	}
	if c.Barrier > 0 && int(h.BarrierArrived.Load()) != c.Barrier {
		add("C03", "only %d of %d simultaneously runnable jobs ran concurrently", h.BarrierArrived.Load(), c.Barrier)
	}

	// ---- C06: leak (real-time flavour; synctest reports by panicking) ------
	if h.LeakDump != "" {
		add("C06", "scheduler goroutines are still blocked after Wait returned and all started jobs finished:\n%s", h.LeakDump)
	}

	// ---- C19: state reports -------------------------------------------------
	h.repMu.Lock()
	for _, v := range h.ReportViolation {
		add("C19", "%s", v)
	}
	h.repMu.Unlock()
	if h.ReportsAfterWait.Load() > 0 && h.WaitCtxErrAtReturn == nil && c.WaitCtx != WOwnCancelled {
		add("C19", "%d state reports were emitted after Wait had returned through normal completion", h.ReportsAfterWait.Load())
	}
	sort.SliceStable(out, func(a, b int) bool { return out[a].Prop < out[b].Prop })
	return out
}

// NonTrivial implements each property's stated non-triviality rule.
func NonTrivial(prop string, c *Case, h *Hist) bool {
	jobs := c.effectiveJobs()
	J := len(jobs)
	fails, goexit := 0, false
	for _, jb := range jobs {
		if Fails(jb.Beh) {
			fails++
		}
		if jb.Beh == BGoexit {
			goexit = true
		}
	}
	firstFailEnd := int64(0)
	if h != nil && h.Hang == "" {
		for j := 0; j < J; j++ {
			if Fails(jobs[j].Beh) {
				if e := h.EndSeq[j].Load(); e != 0 && (firstFailEnd == 0 || e < firstFailEnd) {
					firstFailEnd = e
				}
			}
		}
	}
	enqAfter := func(seq int64) bool {
		if seq == 0 || h == nil {
			return false
		}
		for j := 0; j < J; j++ {
			if h.EnqSeq[j] > seq {
				return true
			}
		}
		return false
	}
	hasDependentOfFailure := func(minDepth int) bool {
		depth := make([]int, J) // distance below nearest failed ancestor
		for j := 0; j < J; j++ {
			for _, d := range jobs[j].Deps {
				if Fails(jobs[d].Beh) && depth[j] < 1 {
					depth[j] = 1
				}
				if depth[d] > 0 && depth[j] < depth[d]+1 {
					depth[j] = depth[d] + 1
				}
			}
			if depth[j] >= minDepth {
				return true
			}
		}
		return false
	}
	switch prop {
	case "C01":
		for _, jb := range jobs {
			seen := map[int]bool{}
			for _, d := range jb.Deps {
				if seen[d] {
					return true
				}
				seen[d] = true
			}
			if len(seen) >= 2 || (jb.Pace == PAwait && len(jb.Deps) > 0) {
				return true
			}
		}
		return false
	case "C03":
		return c.Barrier > 0 || (h != nil && h.Hang == "" && int(h.MaxInflight.Load()) >= h.Limit && J > h.Limit)
	case "C05":
		return (!c.COE && enqAfter(firstFailEnd)) || (goexit) || (h != nil && h.CancelSeq.Load() != 0) || c.Gate > 0
	case "C06":
		lim := c.Limit(16)
		return (!c.COE && fails > 0 && J > lim) || (h != nil && h.Hang == "" && h.CancelSeq.Load() != 0) || c.Gate > 0
	case "C07":
		return !c.COE && (fails >= 2 || hasDependentOfFailure(1) || enqAfter(firstFailEnd))
	case "C08":
		return c.COE && (fails >= 3 || hasDependentOfFailure(2) || lateAfterFailure(c, h))
	case "C09":
		if h == nil || h.Hang != "" {
			return false
		}
		if c.CtxMode == MPre || c.Gate > 0 {
			return true
		}
		cs := h.CancelSeq.Load()
		if cs == 0 {
			return false
		}
		for j := 0; j < J; j++ {
			if h.Starts[j].Load() == 0 && (jobs[j].Ctx == CRoot || jobs[j].Ctx == CChild) {
				return true
			}
		}
		return false
	case "C12":
		return J >= 2
	case "C19":
		return h != nil && h.NReportsBusy.Load() > 0
	}
	return true
}

func lateAfterFailure(c *Case, h *Hist) bool {
	if h == nil || h.Hang != "" {
		return false
	}
	jobs := c.effectiveJobs()
	for j, jb := range jobs {
		for _, d := range jb.Deps {
			if Fails(jobs[d].Beh) {
				if e := h.EndSeq[d].Load(); e != 0 && h.EnqSeq[j] > e {
					return true
				}
			}
		}
	}
	return false
}

// veryErr reports whether target itself (the very instance) is err or is
// reachable from err through Unwrap / multierr entries. Unlike errors.Is it
// never consults an Is method: some injected errors match every target.
func veryErr(err error, target *jobErr) bool {
	for err != nil {
		if je, ok := err.(*jobErr); ok && je == target {
			return true
		}
		if es := multierr.Errors(err); len(es) > 1 {
			for _, e := range es {
				if veryErr(e, target) {
					return true
				}
			}
			return false
		}
		u, ok := err.(interface{ Unwrap() error })
		if !ok {
			return false
		}
		err = u.Unwrap()
	}
	return false
}
