//go:build verif

package verifsched

import (
	"fmt"
	"runtime"
	"sync/atomic"
	"time"

	"go.uber.org/cff/scheduler"
)

const hooksEnabled = true

// installHook installs the perturbation/event hook for one execution.
func installHook(plan [][]int, m Mode, h *Hist) (remove func()) {
	var counters [NumPoints]atomic.Int64
	scheduler.SetVerifHook(func(point, arg int) {
		if point < 0 || point >= NumPoints {
			return
		}
		if n := h.HookCounts[point].Add(1); point == scheduler.VerifLoopTop && h.baseSched == 0 && n > h.loopBudget.Load()+h.NReports.Load() {
			h.Livelock.Store(fmt.Sprintf("the Scheduler Loop iterated %d times; at most 3*jobs+1+reports = %d iterations can do work: it is spinning", n, 3*h.J+1+int(h.NReports.Load())))
			runtime.Goexit() // stops the loop goroutine; its deferred calls release Wait
		}
		if point == scheduler.VerifWorkerGot && h.cancelAtGot != nil {
			// cancellation injected exactly when a worker holds a job it has not
			// looked at yet (Case.CancelAtGot = ordinal of that moment)
			if h.gotCount.Add(1) == h.cancelAtGotN {
				h.cancelAtGot()
			}
		}
		switch point {
		case scheduler.VerifDispatched, scheduler.VerifResult:
			h.hookOngoing.Store(int64(arg))
			for {
				old := h.MaxHookOngoing.Load()
				if int64(arg) <= old || h.MaxHookOngoing.CompareAndSwap(old, int64(arg)) {
					break
				}
			}
		}
		if point >= len(plan) || len(plan[point]) == 0 {
			return
		}
		n := counters[point].Add(1) - 1
		act := plan[point][int(n)%len(plan[point])]
		switch {
		case act == 1:
			runtime.Gosched()
		case act == 2:
			runtime.Gosched()
			runtime.Gosched()
			runtime.Gosched()
		case act >= 3:
			time.Sleep(time.Duration(act-2) * m.Unit)
		}
	})
	return func() { scheduler.SetVerifHook(nil) }
}

var _ = [1]struct{}{}[NumPoints-scheduler.VerifNumPoints]

// installRaceHook perturbs without touching any shared state: the action at
// a point is fixed per execution, so the hook adds no happens-before edges.
func installRaceHook(plan [][]int) (remove func()) {
	acts := make([]int, NumPoints)
	for p := range acts {
		if p < len(plan) && len(plan[p]) > 0 {
			acts[p] = plan[p][0]
		}
	}
	scheduler.SetVerifHook(func(point, arg int) {
		if point < 0 || point >= NumPoints {
			return
		}
		switch a := acts[point]; {
		case a == 1:
			runtime.Gosched()
		case a == 2:
			runtime.Gosched()
			runtime.Gosched()
			runtime.Gosched()
		case a >= 3:
			time.Sleep(time.Duration(a-2) * time.Microsecond)
		}
	})
	return func() { scheduler.SetVerifHook(nil) }
}
