package verifsched

import "pgregory.net/rapid"

// uniform draws an (almost exactly) uniform integer in [0,n). rapid's
// numeric generators are deliberately biased towards small and boundary
// values, which is wrong for branch probabilities; single bits are fair.
// Shrinks towards 0.
func uniform(t *rapid.T, label string, n int) int {
	if n <= 1 {
		return 0
	}
	v := 0
	for i := 0; i < 20; i++ {
		v <<= 1
		if rapid.Bool().Draw(t, label) {
			v |= 1
		}
	}
	return int(uint64(v) * uint64(n) >> 20)
}
