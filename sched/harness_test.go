package verifsched

import (
	"encoding/json"
	"flag"
	"fmt"
	"os"
	"path/filepath"
	"strings"
	"sync"
	"testing"
)

var (
	flagProp   = flag.String("prop", "C01", "property id whose profile and oracle are used")
	flagTier   = flag.String("tier", "quick", "quick|thorough")
	flagOut    = flag.String("out", "", "directory receiving case logs and failure files")
	flagShard  = flag.Int("shard", 0, "shard number (names the output files)")
	flagReplay = flag.String("replay", "", "replay file (JSON case) to execute instead of searching")
	flagReps   = flag.Int("reps", 1, "executions per generated case")
	flagStress = flag.Int("stress", 2000, "TestStress: executions per generated case")
)

// caseLog is the per-run evidence log: one JSON line per executed case.
type caseLog struct {
	mu      sync.Mutex
	f       *os.File
	samples int
	engine  string
}

type logLine struct {
	H      string           `json:"h"`
	NT     bool             `json:"nt"`
	Labels []string         `json:"labels,omitempty"`
	Sample json.RawMessage  `json:"sample,omitempty"`
	Other  []string         `json:"other,omitempty"` // findings for other properties (informational)
	Extra  map[string]int64 `json:"extra,omitempty"`
}

func openLog(engine string) *caseLog {
	l := &caseLog{engine: engine}
	if *flagOut != "" {
		f, err := os.Create(filepath.Join(*flagOut, fmt.Sprintf("cases-%s-%s-%d.jsonl", *flagProp, engine, *flagShard)))
		if err == nil {
			l.f = f
		}
	}
	return l
}

func (l *caseLog) add(c *Case, nt bool, other []Finding, extra map[string]int64) {
	if l.f == nil {
		return
	}
	ll := logLine{H: c.Hash(), NT: nt, Labels: c.Labels(), Extra: extra}
	for _, f := range other {
		ll.Other = append(ll.Other, f.Prop)
	}
	l.mu.Lock()
	defer l.mu.Unlock()
	if nt && l.samples < 3 {
		l.samples++
		ll.Sample = json.RawMessage(c.JSON())
	}
	b, _ := json.Marshal(ll)
	l.f.Write(append(b, '\n'))
}

func (l *caseLog) close() {
	if l.f != nil {
		l.f.Close()
	}
}

// failRecord is what a failing case leaves behind for the driver.
type failRecord struct {
	Prop     string    `json:"property"`
	Engine   string    `json:"engine"`
	Case     *Case     `json:"case"`
	Findings []Finding `json:"findings"`
}

func writeFail(engine string, c *Case, fs []Finding) {
	if *flagOut == "" {
		return
	}
	replayEngine := engine
	if engine == "fuzz" {
		replayEngine = "rt" // a case found by the native fuzzer is replayed by TestRT
	}
	b, _ := json.MarshalIndent(failRecord{Prop: *flagProp, Engine: replayEngine, Case: c, Findings: fs}, "", " ")
	os.WriteFile(filepath.Join(*flagOut, fmt.Sprintf("fail-%s-%s-%d.json", *flagProp, engine, *flagShard)), b, 0o644)
}

func relevant(fs []Finding) (mine, other []Finding) {
	for _, f := range fs {
		if f.Prop == *flagProp {
			mine = append(mine, f)
		} else {
			other = append(other, f)
		}
	}
	return
}

func fmtFindings(fs []Finding) string {
	var sb strings.Builder
	for _, f := range fs {
		fmt.Fprintf(&sb, "[%s] %s\n", f.Prop, f.Msg)
	}
	return sb.String()
}

func loadReplay(t *testing.T) (*failRecord, bool) {
	if *flagReplay == "" {
		return nil, false
	}
	b, err := os.ReadFile(*flagReplay)
	if err != nil {
		t.Fatalf("replay: %v", err)
	}
	var r failRecord
	if err := json.Unmarshal(b, &r); err != nil {
		t.Fatalf("replay: %v", err)
	}
	if r.Case == nil {
		t.Fatalf("replay: no case in %s", *flagReplay)
	}
	return &r, true
}

func writeInconclusive(msg string) {
	if *flagOut == "" {
		return
	}
	f, err := os.OpenFile(filepath.Join(*flagOut, fmt.Sprintf("inconclusive-%s-%d.txt", *flagProp, *flagShard)), os.O_APPEND|os.O_CREATE|os.O_WRONLY, 0o644)
	if err == nil {
		f.WriteString(msg + "\n")
		f.Close()
	}
}

// failedOnce is set by the first failing case. From then on (rapid is
// shrinking, or re-running the minimal case) every candidate is executed
// many times, because most failures are schedule dependent and rapid can
// only shrink what fails reliably.
var failedOnce atomicBool

type atomicBool struct{ v int32 }

func (b *atomicBool) Store(x bool) { atomicStore(&b.v, x) }
func (b *atomicBool) Load() bool   { return atomicLoad(&b.v) }

func reps() int {
	if failedOnce.Load() {
		if *flagReps > 25 {
			return *flagReps
		}
		if repsAfterFailure > 0 {
			return repsAfterFailure
		}
		return 25
	}
	return *flagReps
}

// repsAfterFailure overrides the default 25 (virtual-time runs are far more
// repeatable than real-time ones, and a livelocked candidate is expensive).
var repsAfterFailure int

// TestMain primes process-wide fixtures that must be created outside any
// synctest bubble and before any goroutine census.
func TestMain(m *testing.M) {
	flag.Parse()
	primeNestedErr()
	os.Exit(m.Run())
}
