package verifsched

import "sync/atomic"

func atomicStore(p *int32, x bool) {
	if x {
		atomic.StoreInt32(p, 1)
	} else {
		atomic.StoreInt32(p, 0)
	}
}
func atomicLoad(p *int32) bool { return atomic.LoadInt32(p) != 0 }
