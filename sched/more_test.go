package verifsched

import (
	"encoding/json"
	"fmt"
	"os"
	"path/filepath"
	"runtime"
	"sync"
	"testing"
	"time"

	"pgregory.net/rapid"
)

// TestRace is the race flavour (C12). Build with -race; run with
// GORACE=halt_on_error=1 so that the first report stops the process (exit
// 66); the case being executed is in cur-<prop>-race-<shard>.json.
func TestRace(t *testing.T) {
	cur := ""
	if *flagOut != "" {
		cur = filepath.Join(*flagOut, fmt.Sprintf("cur-%s-race-%d.json", *flagProp, *flagShard))
	}
	runOne := func(c *Case) []Finding {
		if cur != "" {
			b, _ := json.Marshal(failRecord{Prop: *flagProp, Engine: "race", Case: c,
				Findings: []Finding{{"C12", "the Go race detector reported a data race while this case was executing (see log_tail)"}}})
			os.WriteFile(cur, b, 0o644)
		}
		r := RunRace(c, time.Microsecond)
		return r.Findings
	}
	if r, ok := loadReplay(t); ok {
		for i := 0; i < 200; i++ {
			if fs := runOne(r.Case); len(fs) > 0 {
				t.Fatalf("replay reproduces:\n%s", fmtFindings(fs))
			}
		}
		return
	}
	prof := profileFor("C12", *flagTier == "thorough")
	log := openLog("race")
	defer log.close()
	rapid.Check(t, func(rt *rapid.T) {
		c := GenCase(rt, prof)
		c.Gate, c.Barrier = 0, 0
		for j := range c.Jobs {
			if c.Jobs[j].Pace == PAwait {
				c.Jobs[j].Pace = PNone
			}
		}
		for rep := 0; rep < reps(); rep++ {
			fs := runOne(c)
			log.add(c, NonTrivial("C12", c, nil), nil, nil)
			if len(fs) > 0 {
				failedOnce.Store(true)
				writeFail("race", c, fs)
				rt.Fatalf("case %s\n%s", c.JSON(), fmtFindings(fs))
			}
		}
	})
	if cur != "" {
		os.Remove(cur)
	}
}

// TestBig: very many independent jobs (C03: goroutines do not grow with work).
func TestBig(t *testing.T) {
	m := rtMode
	m.SampleGoroutines = true
	count := 5000
	if *flagTier == "thorough" {
		count = 100000
	}
	log := openLog("big")
	defer log.close()
	rapid.Check(t, func(rt *rapid.T) {
		c := &Case{Profile: "C03", Shape: "big", COE: true, WaitCtx: WBack}
		c.N = []int{0, 1, 2, 3, 4, 8, 16, 32, 64}[uniform(rt, "n", 9)]
		c.BigCount = count/10 + uniform(rt, "count", count-count/10+1)
		nt := 1 + uniform(rt, "ntemplate", 6)
		for i := 0; i < nt; i++ {
			jb := Job{}
			switch uniform(rt, "kind", 6) {
			case 0:
				jb.Kind, jb.Arg = KYield, 1
			case 1:
				jb.Kind, jb.Arg = KSleep, 1
			}
			if uniform(rt, "err", 8) == 0 {
				jb.Beh = BErr
			}
			c.Jobs = append(c.Jobs, jb)
		}
		h, inc := RunWithWatchdog(c, m, 120*time.Second)
		if inc != nil {
			writeInconclusive(inc.Error())
			if !settle(90 * time.Second) {
				writeInconclusive("stopped: an abandoned scheduler is still alive")
				log.close()
				os.Exit(0)
			}
			rt.Skip(inc.Error())
		}
		mine, other := relevant(Check(c, h))
		log.add(c, NonTrivial(*flagProp, c, h), other, map[string]int64{"jobs": int64(c.BigCount)})
		if len(mine) > 0 {
			writeFail("big", c, mine)
			rt.Fatalf("case %s\n%s", c.JSON(), fmtFindings(mine))
		}
	})
}

// TestHistory: stateful histories of consecutive and concurrent scheduler
// executions (C06): goroutines never accumulate.
func TestHistory(t *testing.T) {
	m := rtMode
	log := openLog("hist")
	defer log.close()
	profs := map[string]Profile{}
	for _, k := range []string{"ok", "failfast", "coe", "cancel"} {
		p := profileFor("C06", false)
		p.PGate, p.PBarrier, p.PEmit = 0, 0, 0.1
		switch k {
		case "ok":
			p.PFailCase, p.PCancel = 0, 0
		case "failfast":
			p.PFailCase, p.PCOE, p.PCancel = 1, 0, 0
		case "coe":
			p.PFailCase, p.PCOE, p.PCancel = 1, 1, 0
		case "cancel":
			p.PCancel = 1
		}
		profs[k] = p
	}
	rapid.Check(t, func(rt *rapid.T) {
		base := map[int64]bool{}
		for _, g := range dumpGoroutines() {
			if g.Sched {
				base[g.ID] = true
			}
		}
		g0 := runtime.NumGoroutine()
		var history []*Case
		fail := func(fs []Finding) {
			hc := &Case{Shape: "history", Profile: "C06"}
			b, _ := json.Marshal(history)
			writeFail("hist", hc, append(fs, Finding{"C06", "history: " + string(b)}))
			rt.Fatalf("history of %d batches\n%s", len(history), fmtFindings(fs))
		}
		runBatch := func(kind string) func(*rapid.T) {
			return func(rt *rapid.T) {
				c := GenCase(rt, profs[kind])
				history = append(history, c)
				h, inc := RunWithWatchdog(c, m, 30*time.Second)
				if inc != nil {
					writeInconclusive(inc.Error())
					if !settle(90 * time.Second) {
						writeInconclusive("stopped: an abandoned scheduler is still alive")
						log.close()
						os.Exit(0)
					}
					rt.Skip(inc.Error())
				}
				mine, other := relevant(Check(c, h))
				log.add(c, NonTrivial("C06", c, h), other, nil)
				if len(mine) > 0 {
					fail(mine)
				}
			}
		}
		rt.Repeat(map[string]func(*rapid.T){
			"ok":       runBatch("ok"),
			"failfast": runBatch("failfast"),
			"coe":      runBatch("coe"),
			"cancel":   runBatch("cancel"),
			"concurrent": func(rt *rapid.T) {
				k := 2 + uniform(rt, "k", 5)
				cs := make([]*Case, k)
				for i := range cs {
					cs[i] = GenCase(rt, profs[[]string{"ok", "failfast", "coe", "cancel"}[uniform(rt, "kind", 4)]])
					cs[i].Plan = nil // the hook is process-global
					history = append(history, cs[i])
				}
				var wg sync.WaitGroup
				mm := m
				mm.NoQuiesce = true
				for _, c := range cs {
					wg.Add(1)
					go func(c *Case) {
						defer wg.Done()
						Run(c, mm)
					}(c)
				}
				wg.Wait()
				for _, c := range cs {
					log.add(c, NonTrivial("C06", c, nil), nil, nil)
				}
			},
			"": func(rt *rapid.T) {
				if d := awaitNoSchedGoroutines(10*time.Second, base); d != "" {
					fail([]Finding{{"C06", "after a history of scheduler executions, scheduler goroutines remain blocked:\n" + d}})
				}
				if n := runtime.NumGoroutine(); n > g0+2 {
					// give unrelated runtime goroutines a moment, then insist
					time.Sleep(20 * time.Millisecond)
					if n = runtime.NumGoroutine(); n > g0+2 {
						if CountSchedGoroutines() > len(base) {
							fail([]Finding{{"C06", fmt.Sprintf("goroutines accumulated over the history: %d at start, %d now", g0, n)}})
						}
					}
				}
			},
		})
	})
}
