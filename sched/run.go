package verifsched

import (
	"bytes"
	"context"
	"errors"
	"fmt"
	"runtime"
	"strconv"
	"strings"
	"sync"
	"sync/atomic"
	"time"

	"go.uber.org/cff/scheduler"
)

// Mode selects the execution flavour.
type Mode struct {
	ST   bool          // running inside a testing/synctest bubble (virtual time)
	Unit time.Duration // one time unit of the case (1ns virtual, 1µs real)
	// SampleGoroutines makes some job bodies take a goroutine census.
	SampleGoroutines bool
	// NoQuiesce skips the per-run quiescence/leak check (concurrent histories).
	NoQuiesce bool
}

// jobErr is the unique error value of a failing job.
//
// A job's error may wrap context.DeadlineExceeded / context.Canceled (as a
// task-local timeout would) although no context of the case is done, and
// several jobs may return one shared instance.
type jobErr struct {
	j    int
	wrap error
	perm bool // Is matches every target
}

// Is makes a permissive jobErr match every target (errors.Is consults it).
func (e *jobErr) Is(error) bool { return e.perm }

func (e *jobErr) Error() string {
	if e.wrap != nil {
		return fmt.Sprintf("job %d failed: %v", e.j, e.wrap)
	}
	return fmt.Sprintf("job %d failed", e.j)
}

func (e *jobErr) Unwrap() error { return e.wrap }

var (
	nestedOnce sync.Once
	nestedErr  error
)

// nestedGoexitErr is the error a scheduler's Wait returns when one of its jobs
// killed its goroutine: what a task gets back from a nested Flow/Parallel and
// typically returns as its own error. It is produced once, by a real
// scheduler that has completely shut down before any case runs
// (primeNestedErr), so that no goroutine of it is ever seen by a census.
func nestedGoexitErr() error { return nestedErr }

func primeNestedErr() {
	nestedOnce.Do(func() {
		s := scheduler.Config{Concurrency: 1}.New()
		s.Enqueue(context.Background(), scheduler.Job{Run: func(context.Context) error {
			runtime.Goexit()
			return nil
		}})
		nestedErr = s.Wait(context.Background())
		awaitNoSchedGoroutines(5*time.Second, map[int64]bool{})
	})
}

// newJobErrs builds the error instance of every job.
func newJobErrs(jobs []Job) []*jobErr {
	errs := make([]*jobErr, len(jobs))
	for j, jb := range jobs {
		if k := jb.EShare - 1; k >= 0 && k < j {
			errs[j] = errs[k]
			continue
		}
		errs[j] = &jobErr{j: j}
		switch jb.EWrap {
		case 1:
			errs[j].wrap = context.DeadlineExceeded
		case 2:
			errs[j].wrap = context.Canceled
		case 3:
			errs[j].wrap = nestedGoexitErr()
		case 4:
			errs[j].perm = true
		}
	}
	return errs
}

// Report is one scheduler state report plus harness-side facts read inside
// the Emit callback.
type Report struct {
	S             scheduler.State
	Submitted     int64
	SubmittedDeps int64
	Inflight      int32
	AfterWait     bool
	HookOngoing   int
}

// Hist is what the harness observed during one execution.
type Hist struct {
	J         int
	Limit     int
	Starts    []atomic.Int32
	StartSeq  []atomic.Int64
	EndSeq    []atomic.Int64
	Gid       []atomic.Int64
	CtxBad    []atomic.Int32
	EnqSeq    []int64
	EnqRetSeq []int64
	Errs      []*jobErr

	CancelSeq atomic.Int64 // seq right after cancel() returned (0 = never)
	// cancellation injected at the hook point "a worker has received a job and
	// not yet looked at it" (Case.CancelAtGot): the goroutine that executed
	// the hook and the seq right after cancel() returned on it
	CancelGotGid       atomic.Int64
	CancelGotSeq       atomic.Int64
	cancelAtGot        func()
	cancelAtGotN       int64
	gotCount           atomic.Int64
	WaitSeq0           int64
	WaitSeq1           int64
	WaitErr            error
	WaitCtxErrAtReturn error

	MaxInflight atomic.Int32
	inflight    atomic.Int32

	submitted     atomic.Int64
	submittedDeps atomic.Int64
	afterWait     atomic.Bool

	// state reports (checked inline; only aggregates and violations kept)
	NReports         atomic.Int64
	NReportsBusy     atomic.Int64 // Ready>0 && exec>0
	repMu            sync.Mutex
	ReportViolation  []string
	ReportsAfterWait atomic.Int64
	ReportSamples    []Report
	hookOngoing      atomic.Int64 // written on the loop goroutine

	// hook event counts
	HookCounts     [NumPoints]atomic.Int64
	MaxHookOngoing atomic.Int64

	GoroutineSamples []int // census taken inside bodies
	sampleMu         sync.Mutex

	GateStartedBeforeWaitRet bool
	GateParkedAtWaitRet      bool
	BarrierArrived           atomic.Int32

	baseSched int
	// Livelock is set when the Scheduler Loop exceeded its exact iteration
	// budget (or, in virtual time, the state-report budget) and was stopped.
	Livelock     atomic.Value // string
	loopBudget   atomic.Int64
	reportBudget int64
	LeakDump     string // RT: non-empty when scheduler goroutines survived quiescence
	Hang         string // RT: non-empty when the watchdog fired (stable all-blocked dump)
}

var seqCounter atomic.Int64

type ctxKey struct{}

// effectiveJobs expands BigCount templates.
func (c *Case) effectiveJobs() []Job {
	if c.BigCount <= 0 {
		return c.Jobs
	}
	out := make([]Job, c.BigCount)
	for i := range out {
		t := c.Jobs[i%len(c.Jobs)]
		out[i] = Job{Beh: t.Beh, Kind: t.Kind, Arg: t.Arg, Ctx: t.Ctx}
		if Cancels(out[i].Beh) {
			out[i].Beh = BOk
		}
	}
	return out
}

// Run executes the case once against the real scheduler.
func Run(c *Case, m Mode) *Hist {
	if c.Procs > 0 {
		defer runtime.GOMAXPROCS(runtime.GOMAXPROCS(c.Procs))
	}
	jobs := c.effectiveJobs()
	J := len(jobs)
	h := &Hist{
		J:         J,
		Limit:     c.Limit(runtime.GOMAXPROCS(0)),
		Starts:    make([]atomic.Int32, J),
		StartSeq:  make([]atomic.Int64, J),
		EndSeq:    make([]atomic.Int64, J),
		Gid:       make([]atomic.Int64, J),
		CtxBad:    make([]atomic.Int32, J),
		EnqSeq:    make([]int64, J),
		EnqRetSeq: make([]int64, J),
		Errs:      newJobErrs(jobs),
	}
	seq := &seqCounter
	h.loopBudget.Store(int64(3*J + 1064))
	if m.ST {
		h.reportBudget = int64(2000*J + 200000)
	}

	rootCtx, cancel := context.WithCancel(context.WithValue(context.Background(), ctxKey{}, "root"))
	if c.CustomRoot {
		// a hand-written Context: the context package can follow its
		// cancellation only through a helper goroutine. It stays live after
		// the run (a long-lived caller context), so anything that still
		// watches it then is a leak.
		cancel()
		mc := newManualCtx(context.WithValue(context.Background(), ctxKey{}, "root"))
		rootCtx, cancel = mc, mc.Cancel
	} else {
		defer cancel()
	}
	childCtx := context.WithValue(rootCtx, ctxKey{}, "child")
	backCtx := context.WithValue(context.Background(), ctxKey{}, "back")
	ownCtx := make([]context.Context, len(jobs))
	ownCancel := make([]context.CancelFunc, len(jobs))
	for j := range jobs {
		if jobs[j].Ctx == COwn {
			ownCtx[j], ownCancel[j] = context.WithCancel(context.WithValue(context.Background(), ctxKey{}, "own"))
			defer ownCancel[j]()
		}
	}
	ctxFor := func(j int) context.Context {
		switch jobs[j].Ctx {
		case CChild:
			return childCtx
		case CBack:
			return backCtx
		case COwn:
			return ownCtx[j]
		}
		return rootCtx
	}
	doCancel := func() {
		cancel()
		h.CancelSeq.CompareAndSwap(0, seq.Add(1))
	}
	if c.CancelAtGot > 0 {
		h.cancelAtGotN = int64(c.CancelAtGot)
		h.cancelAtGot = func() {
			cancel()
			n := seq.Add(1)
			h.CancelSeq.CompareAndSwap(0, n)
			h.CancelGotGid.Store(curGid())
			h.CancelGotSeq.Store(n)
		}
	}

	done := make([]chan struct{}, J)
	doneOnce := make([]sync.Once, J)
	for j := range done {
		done[j] = make(chan struct{})
	}
	gate := make(chan struct{})
	barrier := make(chan struct{})

	base := map[int64]bool{}
	if !m.ST || m.SampleGoroutines {
		for _, g := range dumpGoroutines() {
			if g.Sched {
				base[g.ID] = true
			}
		}
	}
	h.baseSched = len(base)

	removeHook := installHook(c.Plan, m, h)
	defer removeHook()

	cfg := scheduler.Config{Concurrency: c.N, ContinueOnError: c.COE}
	switch c.Emit {
	case E1ns:
		cfg.Emitter, cfg.StateFlushFrequency = (*recEmitter)(h), time.Nanosecond
	case E1us:
		cfg.Emitter, cfg.StateFlushFrequency = (*recEmitter)(h), time.Microsecond
	case EDefault:
		cfg.Emitter = (*recEmitter)(h)
	}

	body := func(j int) func(context.Context) error {
		jb := jobs[j]
		want := ctxFor(j)
		return func(ctx context.Context) error {
			n := h.Starts[j].Add(1)
			st := seq.Add(1)
			if n == 1 {
				h.StartSeq[j].Store(st)
				if c.CancelAtGot > 0 {
					h.Gid[j].Store(curGid())
				}
			}
			cur := h.inflight.Add(1)
			for {
				old := h.MaxInflight.Load()
				if cur <= old || h.MaxInflight.CompareAndSwap(old, cur) {
					break
				}
			}
			if ctx != want {
				h.CtxBad[j].Store(1)
			}
			if m.SampleGoroutines && (j == 0 || j == J/2 || j == J-1 || (c.Barrier > 0 && j >= J-c.Barrier)) {
				n := CountSchedGoroutines() - h.baseSched
				h.sampleMu.Lock()
				h.GoroutineSamples = append(h.GoroutineSamples, n)
				h.sampleMu.Unlock()
			}
			switch jb.Kind {
			case KYield:
				for i := 0; i < jb.Arg; i++ {
					runtime.Gosched()
				}
			case KSleep:
				time.Sleep(time.Duration(jb.Arg) * m.Unit)
			}
			if c.Gate-1 == j {
				<-gate
			}
			if c.Barrier > 0 && j >= J-c.Barrier {
				if int(h.BarrierArrived.Add(1)) == c.Barrier {
					close(barrier)
				}
				<-barrier
			}
			if Cancels(jb.Beh) {
				doCancel()
			}
			h.inflight.Add(-1)
			h.EndSeq[j].Store(seq.Add(1))
			doneOnce[j].Do(func() { close(done[j]) })
			if jb.Ctx == COwn {
				ownCancel[j]()
			}
			switch jb.Beh {
			case BErr, BCancelErr:
				return h.Errs[j]
			case BGoexit:
				runtime.Goexit()
			}
			return nil
		}
	}

	if c.CtxMode == MPre {
		doCancel()
	}
	var timerWG sync.WaitGroup
	if c.CtxMode == MTimer {
		timerWG.Add(1)
		go func() {
			defer timerWG.Done()
			time.Sleep(time.Duration(c.TimerAt) * m.Unit)
			doCancel()
		}()
	}

	s := cfg.New()
	handles := make([]*scheduler.ScheduledJob, J)
	depSlices := newDepSlices(c)
	enqueue := func(j int) {
		jb := jobs[j]
		switch jb.Pace {
		case PYield:
			runtime.Gosched()
		case PSleep:
			time.Sleep(time.Duration(jb.PArg) * m.Unit)
		case PAwait:
			tm := time.NewTimer(300 * m.Unit)
			select {
			case <-done[jb.PArg]:
			case <-tm.C:
			}
			tm.Stop()
		}
		deps := depSlices.get(jb.Deps, handles)
		h.submitted.Add(1)
		if len(deps) > 0 {
			h.submittedDeps.Add(1)
		}
		h.EnqSeq[j] = seq.Add(1)
		handles[j] = s.Enqueue(ctxFor(j), scheduler.Job{Run: body(j), Dependencies: deps})
		h.EnqRetSeq[j] = seq.Add(1)
	}
	if c.ConcEnq > 1 {
		for _, layer := range layers(jobs) {
			var wg sync.WaitGroup
			for g := 0; g < c.ConcEnq; g++ {
				wg.Add(1)
				go func(g int) {
					defer wg.Done()
					for i := g; i < len(layer); i += c.ConcEnq {
						enqueue(layer[i])
					}
				}(g)
			}
			wg.Wait()
		}
	} else {
		for j := 0; j < J; j++ {
			enqueue(j)
		}
	}

	var waitCtx context.Context = rootCtx
	switch c.WaitCtx {
	case WBack:
		waitCtx = backCtx
	case WOwnCancelled:
		wc, wcancel := context.WithCancel(context.Background())
		wcancel()
		waitCtx = wc
	}
	h.WaitSeq0 = seq.Add(1)
	h.WaitErr = s.Wait(waitCtx)
	h.WaitSeq1 = seq.Add(1)
	h.WaitCtxErrAtReturn = waitCtx.Err()
	h.afterWait.Store(true)
	if c.Gate > 0 {
		g := c.Gate - 1
		h.GateStartedBeforeWaitRet = h.StartSeq[g].Load() != 0
		h.GateParkedAtWaitRet = h.GateStartedBeforeWaitRet && h.EndSeq[g].Load() == 0
	}
	close(gate)
	timerWG.Wait()

	// Quiescence.
	if m.ST {
		d := time.Hour
		if c.Emit == E1ns {
			d = time.Millisecond
		} else if c.Emit == E1us {
			d = time.Second
		}
		time.Sleep(d)
	} else if !m.NoQuiesce {
		h.LeakDump = awaitNoSchedGoroutines(10*time.Second, base)
	}
	return h
}

// layers groups job indices by DAG depth.
func layers(jobs []Job) [][]int {
	depth := make([]int, len(jobs))
	var out [][]int
	for j, jb := range jobs {
		d := 0
		for _, x := range jb.Deps {
			if depth[x]+1 > d {
				d = depth[x] + 1
			}
		}
		depth[j] = d
		for len(out) <= d {
			out = append(out, nil)
		}
		out[d] = append(out[d], j)
	}
	return out
}

// recEmitter checks every state report inline.
type recEmitter Hist

func (e *recEmitter) Emit(s scheduler.State) {
	h := (*Hist)(e)
	r := Report{S: s, Submitted: h.submitted.Load(), SubmittedDeps: h.submittedDeps.Load(),
		Inflight: h.inflight.Load(), AfterWait: h.afterWait.Load(), HookOngoing: int(h.hookOngoing.Load())}
	if n := h.NReports.Add(1); h.reportBudget > 0 && n > h.reportBudget {
		h.Livelock.Store(fmt.Sprintf("the Scheduler Loop emitted %d state reports in virtual time (budget %d): it keeps running although every job finished long ago", n, h.reportBudget))
		runtime.Goexit() // stops the loop goroutine; its deferred calls release Wait
	}
	exec := s.Pending - s.Ready - s.Waiting
	if s.Ready > 0 && exec > 0 {
		h.NReportsBusy.Add(1)
	}
	if r.AfterWait {
		h.ReportsAfterWait.Add(1)
	}
	h.repMu.Lock()
	defer h.repMu.Unlock()
	if len(h.ReportSamples) < 3 || (s.Ready > 0 && exec > 0 && len(h.ReportSamples) < 6) {
		h.ReportSamples = append(h.ReportSamples, r)
	}
	bad := func(f string, a ...interface{}) {
		if len(h.ReportViolation) < 5 {
			h.ReportViolation = append(h.ReportViolation, fmt.Sprintf(f, a...)+fmt.Sprintf(" report=%+v", r))
		}
	}
	if s.Pending < 0 || s.Ready < 0 || s.Waiting < 0 || s.IdleWorkers < 0 || s.Concurrency < 0 {
		bad("negative count")
	}
	if s.Concurrency != h.Limit {
		bad("Concurrency=%d, configured limit %d", s.Concurrency, h.Limit)
	}
	if exec < 0 || exec > s.Concurrency {
		bad("executing=Pending-Ready-Waiting=%d outside [0,%d]", exec, s.Concurrency)
	}
	if s.IdleWorkers != s.Concurrency-exec {
		bad("IdleWorkers=%d but Concurrency-executing=%d", s.IdleWorkers, s.Concurrency-exec)
	}
	if int64(s.Pending) > r.Submitted {
		bad("Pending=%d exceeds submitted=%d", s.Pending, r.Submitted)
	}
	if int64(s.Waiting) > r.SubmittedDeps {
		bad("Waiting=%d exceeds submitted-with-deps=%d", s.Waiting, r.SubmittedDeps)
	}
	if int(r.Inflight) > exec {
		bad("bodies actually running=%d exceeds reported executing=%d", r.Inflight, exec)
	}
	// (the hook points are process-wide: when scheduler goroutines of an
	// earlier, abandoned run were still alive as this run started, their
	// events may have been attributed to it; then hook events prove nothing)
	if hooksEnabled && h.baseSched == 0 && r.HookOngoing != exec {
		bad("executing=%d differs from dispatched-minus-results=%d", exec, r.HookOngoing)
	}
}

// goroutine census ---------------------------------------------------------

var stackBuf = make([]byte, 1<<20)
var stackMu sync.Mutex

type gInfo struct {
	ID    int64
	State string
	Sched bool
	Text  string
}

func dumpGoroutines() []gInfo {
	stackMu.Lock()
	defer stackMu.Unlock()
	for {
		n := runtime.Stack(stackBuf, true)
		if n < len(stackBuf) {
			return parseDump(stackBuf[:n])
		}
		stackBuf = make([]byte, 2*len(stackBuf))
	}
}

func parseDump(b []byte) []gInfo {
	var out []gInfo
	for _, blk := range bytes.Split(b, []byte("\n\n")) {
		s := string(blk)
		if !strings.HasPrefix(s, "goroutine ") {
			continue
		}
		head := s[len("goroutine "):]
		sp := strings.IndexByte(head, ' ')
		if sp < 0 {
			continue
		}
		id, _ := strconv.ParseInt(head[:sp], 10, 64)
		state := ""
		if lb := strings.IndexByte(head, '['); lb >= 0 {
			if rb := strings.IndexByte(head[lb:], ']'); rb >= 0 {
				state = head[lb+1 : lb+rb]
			}
		}
		g := gInfo{ID: id, State: state, Text: s}
		g.Sched = strings.Contains(s, "cff/scheduler.worker") || strings.Contains(s, "cff/scheduler.(*Scheduler).run") ||
			strings.Contains(s, "cff/scheduler.Config.New")
		out = append(out, g)
	}
	return out
}

// CountSchedGoroutines counts goroutines that are executing scheduler code
// (workers, the loop, the worker spawner), whatever they are doing on top.
func CountSchedGoroutines() int {
	n := 0
	for _, g := range dumpGoroutines() {
		if g.Sched {
			n++
		}
	}
	return n
}

func isBlockedState(st string) bool {
	st = strings.SplitN(st, ",", 2)[0]
	switch st {
	case "chan send", "chan receive", "select", "select (no cases)", "chan send (nil chan)", "chan receive (nil chan)",
		"sync.Mutex.Lock", "sync.WaitGroup.Wait", "sync.Cond.Wait", "semacquire":
		return true
	}
	return strings.HasPrefix(st, "chan ") || strings.HasPrefix(st, "select") || strings.HasPrefix(st, "sync.")
}

// awaitNoSchedGoroutines polls until no goroutine runs scheduler code. If
// some remain after the deadline it demands that they are all in a blocked
// state, with no other goroutine able to run, in two identical censuses taken
// 300ms apart; only then it returns the dump (a confirmed leak). Otherwise
// it returns "" (no leak) or panics with errInconclusive.
func awaitNoSchedGoroutines(deadline time.Duration, base map[int64]bool) string {
	start := time.Now()
	sleep := 5 * time.Microsecond
	for {
		gs := dumpGoroutines()
		n := 0
		for _, g := range gs {
			if g.Sched && !base[g.ID] {
				n++
			}
		}
		if n == 0 {
			return ""
		}
		if time.Since(start) > deadline {
			break
		}
		if time.Since(start) > 2*time.Millisecond {
			// after the fast phase, check for a stable blocked census early
			if d, ok := stableBlocked(base); ok {
				return d
			}
		}
		time.Sleep(sleep)
		if sleep < 2*time.Millisecond {
			sleep *= 2
		}
	}
	if d, ok := stableBlocked(base); ok {
		return d
	}
	panic(errInconclusive{"scheduler goroutines still present after quiescence deadline but not in a stable blocked state"})
}

type errInconclusive struct{ msg string }

func (e errInconclusive) Error() string { return "INCONCLUSIVE: " + e.msg }

// stableBlocked reports a dump if, in two censuses 300ms apart, the same
// scheduler goroutines exist, every one of them is blocked, and no goroutine
// other than the caller is runnable or running.
func stableBlocked(base map[int64]bool) (string, bool) {
	snap := func() (map[int64]string, string, bool) {
		gs := dumpGoroutines()
		m := map[int64]string{}
		var sb strings.Builder
		for i, g := range gs {
			if i == 0 {
				continue // the caller
			}
			st := strings.SplitN(g.State, ",", 2)[0]
			if st == "running" || st == "runnable" || st == "syscall" {
				return nil, "", false
			}
			if g.Sched && !base[g.ID] {
				if !isBlockedState(g.State) {
					return nil, "", false
				}
				m[g.ID] = st
				sb.WriteString(g.Text)
				sb.WriteString("\n\n")
			}
		}
		return m, sb.String(), len(m) > 0
	}
	a, _, ok := snap()
	if !ok {
		return "", false
	}
	time.Sleep(300 * time.Millisecond)
	b, txt, ok := snap()
	if !ok || len(a) != len(b) {
		return "", false
	}
	for id, st := range a {
		if b[id] != st {
			return "", false
		}
	}
	return txt, true
}

// RunWithWatchdog runs the case in a separate goroutine (real time only) and
// gives up after the deadline: if the process is then in a stable all-blocked
// state the hang is reported in Hist.Hang, otherwise the run is inconclusive.
func RunWithWatchdog(c *Case, m Mode, deadline time.Duration) (h *Hist, inconclusive error) {
	type res struct {
		h   *Hist
		err error
	}
	ch := make(chan res, 1)
	go func() {
		defer func() {
			if r := recover(); r != nil {
				if e, ok := r.(errInconclusive); ok {
					ch <- res{nil, e}
					return
				}
				panic(r)
			}
		}()
		ch <- res{Run(c, m), nil}
	}()
	tm := time.NewTimer(deadline)
	defer tm.Stop()
	select {
	case r := <-ch:
		return r.h, r.err
	case <-tm.C:
	}
	// Hung? Demand a stable all-blocked picture.
	if d, ok := stableBlockedAll(); ok {
		return &Hist{Hang: d}, nil
	}
	return nil, errors.New("INCONCLUSIVE: watchdog fired but goroutines are not in a stable blocked state")
}

func stableBlockedAll() (string, bool) {
	snap := func() (string, bool) {
		gs := dumpGoroutines()
		var sb strings.Builder
		for i, g := range gs {
			if i == 0 {
				continue
			}
			base := strings.SplitN(g.State, ",", 2)[0]
			if base == "running" || base == "runnable" || base == "syscall" || base == "sleep" {
				return "", false
			}
			sb.WriteString(strconv.FormatInt(g.ID, 10) + ":" + base + ";")
		}
		return sb.String(), true
	}
	a, ok := snap()
	if !ok {
		return "", false
	}
	time.Sleep(500 * time.Millisecond)
	b, ok := snap()
	if !ok || a != b {
		return "", false
	}
	var sb strings.Builder
	for _, g := range dumpGoroutines() {
		if g.Sched || strings.Contains(g.Text, "verifsched.Run") {
			sb.WriteString(g.Text + "\n\n")
		}
	}
	return sb.String(), true
}

// depSlices builds the Dependencies slice of each job. With ShareDeps, jobs
// that list the same dependencies are given the very same slice (as a caller
// that fans N jobs out over one set of prerequisites would write it): Enqueue
// must treat the slice as read-only. Sharing is only done when all Enqueues
// come from one goroutine, so the harness itself never writes a shared slice
// twice.
type depSlicesT struct {
	share bool
	cache map[string][]*scheduler.ScheduledJob
}

func newDepSlices(c *Case) *depSlicesT {
	return &depSlicesT{share: c.ShareDeps && c.ConcEnq <= 1, cache: map[string][]*scheduler.ScheduledJob{}}
}

func (d *depSlicesT) get(idx []int, handles []*scheduler.ScheduledJob) []*scheduler.ScheduledJob {
	key := ""
	if d.share && len(idx) > 0 {
		key = fmt.Sprint(idx)
		if s, ok := d.cache[key]; ok {
			return s
		}
	}
	deps := make([]*scheduler.ScheduledJob, len(idx))
	for i, x := range idx {
		deps[i] = handles[x]
	}
	if key != "" {
		d.cache[key] = deps
	}
	return deps
}

// curGid returns the id of the calling goroutine (parsed from its stack header).
func curGid() int64 {
	var buf [64]byte
	b := buf[:runtime.Stack(buf[:], false)]
	b = b[len("goroutine "):]
	id := int64(0)
	for _, ch := range b {
		if ch < '0' || ch > '9' {
			break
		}
		id = id*10 + int64(ch-'0')
	}
	return id
}

// settle is called after a run that could not be judged (watchdog or
// quiescence deadline on a slow machine). The abandoned scheduler may still be
// alive, and the hook points are process-wide: its events would be attributed
// to the next case. Wait until no goroutine runs scheduler code any more;
// report false if that does not happen, in which case the process must not
// judge further cases.
func settle(limit time.Duration) bool {
	start := time.Now()
	for time.Since(start) < limit {
		n := 0
		for _, g := range dumpGoroutines() {
			if g.Sched {
				n++
			}
		}
		if n == 0 {
			return true
		}
		time.Sleep(20 * time.Millisecond)
	}
	return false
}

// manualCtx is a hand-written context.Context with its own Done channel.
type manualCtx struct {
	parent context.Context
	mu     sync.Mutex
	done   chan struct{}
	err    error
}

func newManualCtx(parent context.Context) *manualCtx {
	return &manualCtx{parent: parent, done: make(chan struct{})}
}

func (c *manualCtx) Deadline() (time.Time, bool)     { return time.Time{}, false }
func (c *manualCtx) Done() <-chan struct{}           { return c.done }
func (c *manualCtx) Value(k interface{}) interface{} { return c.parent.Value(k) }
func (c *manualCtx) Err() error {
	c.mu.Lock()
	defer c.mu.Unlock()
	return c.err
}
func (c *manualCtx) Cancel() {
	c.mu.Lock()
	defer c.mu.Unlock()
	if c.err == nil {
		c.err = context.Canceled
		close(c.done)
	}
}
