// Package verifsched is the scheduler-level property harness (engine E-SCHED).
//
// A Case is a complete, explicit description of one execution of the real
// go.uber.org/cff/scheduler: the job DAG, per-job behaviour, timing, enqueue
// pacing, context layout, emitter, and a perturbation plan for the verif hook
// points. Cases are drawn with rapid (so they shrink and replay) and are
// serialisable as JSON (so a failing case becomes a replay file that runs
// without rapid).
package verifsched

import (
	"crypto/sha256"
	"encoding/hex"
	"encoding/json"
	"fmt"

	"pgregory.net/rapid"
)

// Behaviours of a job body.
const (
	BOk        = iota // returns nil
	BErr              // returns a unique error value
	BGoexit           // calls runtime.Goexit
	BCancelOk         // cancels the root context, then returns nil
	BCancelErr        // cancels the root context, then returns a unique error
)

// Body kinds: what the body does between its start and end marks.
const (
	KInstant = iota
	KYield   // runtime.Gosched Arg times
	KSleep   // time.Sleep(Arg units)
)

// Pace kinds: what the enqueuer does before enqueuing this job.
const (
	PNone  = iota
	PYield // runtime.Gosched
	PSleep // time.Sleep(Arg units)
	PAwait // wait until job Arg ended (bounded by a timer)
)

// Ctx kinds for a job.
const (
	CRoot  = iota // the root context
	CChild        // a child context derived from root (WithValue)
	CBack         // context.Background (never cancelled)
	COwn          // a private context that the job itself cancels just before it ends (never cancelled before the job starts)
)

// CtxMode: how the root context gets cancelled from outside the jobs.
const (
	MNone  = iota // only jobs may cancel it
	MPre          // cancelled before the first Enqueue
	MTimer        // cancelled by a harness goroutine after TimerAt units
)

// WaitCtx kinds.
const (
	WRoot = iota
	WBack
	WOwnCancelled // a separate, already cancelled context
)

// Emit kinds.
const (
	ENil = iota
	E1ns
	EDefault
	E1us
)

// Job describes one job.
type Job struct {
	Deps []int `json:"deps,omitempty"` // indices of earlier jobs (multiset)
	Beh  int   `json:"beh,omitempty"`
	Kind int   `json:"kind,omitempty"`
	Arg  int   `json:"arg,omitempty"`
	Pace int   `json:"pace,omitempty"`
	PArg int   `json:"parg,omitempty"`
	Ctx  int   `json:"ctx,omitempty"`
	// error flavour of a failing job: EWrap 1/2 = the error wraps
	// context.DeadlineExceeded / context.Canceled (no context of the case
	// need be done), 3 = it wraps the error a nested scheduler returned
	// after one of its jobs called runtime.Goexit, 4 = its Is method reports a
	// match for every target (a category-style error); EShare = 1+index of an earlier failing job whose error
	// instance this job returns as well.
	EWrap  int `json:"ewrap,omitempty"`
	EShare int `json:"eshare,omitempty"`
}

// Case is one scheduler execution.
type Case struct {
	N        int     `json:"n"`   // Config.Concurrency (0 = default)
	COE      bool    `json:"coe"` // ContinueOnError
	Jobs     []Job   `json:"jobs"`
	CtxMode  int     `json:"ctxmode,omitempty"`
	TimerAt  int     `json:"timerat,omitempty"`
	WaitCtx  int     `json:"waitctx,omitempty"`
	Emit     int     `json:"emit,omitempty"`
	Plan     [][]int `json:"plan,omitempty"`     // [point][slot] -> action
	Gate     int     `json:"gate,omitempty"`     // 1+index of a job parked until Wait returned (0 = none)
	Barrier  int     `json:"barrier,omitempty"`  // >0: the last Barrier jobs meet at a barrier (capacity check)
	ConcEnq  int     `json:"concenq,omitempty"`  // >1: enqueue each DAG layer from that many goroutines
	Shape    string  `json:"shape,omitempty"`    // generator label only
	Profile  string  `json:"profile,omitempty"`  // generator label only
	Repeat   int     `json:"repeat,omitempty"`   // executions per case (schedule diversity)
	BigCount int     `json:"bigcount,omitempty"` // >0: Jobs is a template, replicated to BigCount independent jobs
	Procs    int     `json:"procs,omitempty"`    // >0: GOMAXPROCS to run the case under (default-limit cases)
	// CancelAtGot > 0: the root context is cancelled from inside the hook point
	// "a worker has received a job and not yet looked at it", at its
	// CancelAtGot-th occurrence (needs the verif build tag).
	CancelAtGot int `json:"cancelatgot,omitempty"`
	// CustomRoot: the root context is a hand-written context.Context that is
	// still live after the run.
	CustomRoot bool `json:"customroot,omitempty"`
	// ShareDeps: jobs that list the same dependencies pass the very same
	// Dependencies slice to Enqueue (only when one goroutine enqueues).
	ShareDeps bool `json:"sharedeps,omitempty"`
}

// Limit returns the concurrency limit the case must be held to.
func (c *Case) Limit(gomaxprocs int) int {
	if c.N > 0 {
		return c.N
	}
	if gomaxprocs < 4 {
		return 4
	}
	return gomaxprocs
}

// Hash is a stable identifier of the case contents that matter for
// distinctness (DAG, N, mode, behaviours, ctx layout). Timing and the
// perturbation plan are schedule, not input, and are excluded.
func (c *Case) Hash() string {
	type key struct {
		N       int
		COE     bool
		Deps    [][]int
		Beh     []int
		EK      []int
		Ctx     []int
		CtxMode int
		WaitCtx int
		Emit    int
		Gate    int
		Barrier int
		ConcEnq int
		Big     int
	}
	k := key{N: c.N, COE: c.COE, CtxMode: c.CtxMode, WaitCtx: c.WaitCtx, Emit: c.Emit, Gate: c.Gate, Barrier: c.Barrier, ConcEnq: c.ConcEnq, Big: c.BigCount}
	for _, j := range c.Jobs {
		k.Deps = append(k.Deps, j.Deps)
		k.Beh = append(k.Beh, j.Beh)
		k.EK = append(k.EK, j.EWrap+10*j.EShare)
		k.Ctx = append(k.Ctx, j.Ctx)
	}
	b, _ := json.Marshal(k)
	s := sha256.Sum256(b)
	return hex.EncodeToString(s[:8])
}

// JSON renders the case.
func (c *Case) JSON() string {
	b, _ := json.Marshal(c)
	return string(b)
}

// Fails reports whether the behaviour makes the job report an error.
func Fails(beh int) bool { return beh == BErr || beh == BGoexit || beh == BCancelErr }

// Cancels reports whether the behaviour cancels the root context.
func Cancels(beh int) bool { return beh == BCancelOk || beh == BCancelErr }

// Profile tunes the generator towards the part of the input space a property
// needs. All profiles draw from the same space; only weights differ.
type Profile struct {
	Name       string
	MaxJobs    int
	MaxN       int
	PFailCase  float64 // probability that a case has failing jobs at all
	PGoexit    float64 // per-job probability of Goexit in "faulty" cases
	PCancel    float64 // probability that the case involves cancellation
	PCOE       float64
	PEmit      float64
	PGate      float64 // promptness scenario
	PBarrier   float64 // capacity scenario
	PConcEnq   float64
	PPlan      float64 // probability of a non-empty perturbation plan
	PMixedCtx  float64
	PWaitOther float64
	Repeat     int
}

// Profiles by property id.
func profileFor(prop string, thorough bool) Profile {
	p := Profile{Name: prop, MaxJobs: 24, MaxN: 8, PFailCase: 0.5, PGoexit: 0.08, PCancel: 0.2, PCOE: 0.5,
		PEmit: 0.2, PGate: 0.0, PBarrier: 0.0, PConcEnq: 0.1, PPlan: 0.7, PMixedCtx: 0.15, PWaitOther: 0.1, Repeat: 1}
	switch prop {
	case "C01":
		p.PFailCase = 0.5
	case "C03":
		p.PBarrier = 0.35
		p.PGoexit = 0.25
		p.PCancel = 0.05
		p.MaxN = 16
	case "C05":
		p.PFailCase = 0.7
		p.PGoexit = 0.15
		p.PCancel = 0.35
		p.PGate = 0.15
		p.PEmit = 0.3
	case "C06":
		p.PFailCase = 0.8
		p.PGoexit = 0.12
		p.PCancel = 0.3
		p.PGate = 0.1
	case "C07":
		p.PCOE = 0
		p.PFailCase = 0.85
		p.PCancel = 0.15
	case "C08":
		p.PCOE = 1
		p.PFailCase = 0.9
		p.PCancel = 0.15
	case "C09":
		p.PCancel = 1
		p.PGate = 0.3
		p.PFailCase = 0.3
		p.PMixedCtx = 0.3
	case "C12":
		p.PConcEnq = 0.4
		p.PEmit = 0.3
		p.PCancel = 0.25
		p.PFailCase = 0.6
	case "C19":
		p.PEmit = 1
		p.PFailCase = 0.4
		p.PCancel = 0.1
		p.PPlan = 0.85
	}
	if thorough {
		p.MaxJobs = 120
		p.MaxN = 64
	}
	return p
}

func prob(t *rapid.T, label string, p float64) bool {
	if p <= 0 {
		return false
	}
	if p >= 1 {
		return true
	}
	return uniform(t, label, 1000) < int(p*1000)
}

var shapes = []string{"random", "chain", "diamond", "fanout", "fanin", "layered", "dup", "isolated", "late"}

// GenCase draws a case. Construction only: every drawn case is valid
// (dependencies refer to earlier jobs, so enqueue order 0..J-1 is a linear
// extension of the DAG, which is the scheduler's documented precondition).
func GenCase(t *rapid.T, p Profile) *Case {
	c := &Case{Profile: p.Name, Repeat: p.Repeat}
	switch uniform(t, "nclass", 10) {
	case 0:
		c.N = 0 // default
	case 1, 2:
		c.N = 1
	case 3, 4:
		c.N = 2
	default:
		c.N = 1 + uniform(t, "n", p.MaxN)
	}
	c.COE = prob(t, "coe", p.PCOE)
	c.Shape = shapes[uniform(t, "shape", len(shapes))]
	nj := rapid.IntRange(1, p.MaxJobs).Draw(t, "njobs")
	if uniform(t, "njobsU", 2) == 0 {
		nj = 1 + uniform(t, "njobs2", p.MaxJobs)
	}
	c.Jobs = make([]Job, nj)
	width := rapid.IntRange(1, 5).Draw(t, "width")
	for j := 0; j < nj; j++ {
		c.Jobs[j].Deps = genDeps(t, c.Shape, j, nj, width)
	}

	faulty := prob(t, "faulty", p.PFailCase)
	pf := 0.0
	if faulty {
		pf = []float64{0.05, 0.15, 0.4, 1.0}[uniform(t, "pfail", 4)]
	}
	cancelCase := prob(t, "cancelcase", p.PCancel)
	cancelKind := 0 // 1 in-job, 2 pre, 3 timer
	if cancelCase {
		cancelKind = []int{1, 1, 1, 2, 3, 3}[uniform(t, "cancelkind", 6)]
	}
	mixed := prob(t, "mixedctx", p.PMixedCtx)
	for j := range c.Jobs {
		jb := &c.Jobs[j]
		if faulty && prob(t, "fail", pf) {
			jb.Beh = BErr
			if prob(t, "goexit", p.PGoexit/pfOr(pf)) {
				jb.Beh = BGoexit
			}
		}
		switch uniform(t, "kind", 8) {
		case 0, 1, 2, 3:
			jb.Kind = KInstant
		case 4, 5:
			jb.Kind, jb.Arg = KYield, rapid.IntRange(1, 4).Draw(t, "yields")
		default:
			jb.Kind, jb.Arg = KSleep, rapid.IntRange(1, 40).Draw(t, "sleep")
		}
		switch uniform(t, "pace", 10) {
		case 0:
			jb.Pace = PYield
		case 1:
			jb.Pace, jb.PArg = PSleep, rapid.IntRange(1, 30).Draw(t, "psleep")
		case 2:
			if j > 0 {
				jb.Pace, jb.PArg = PAwait, uniform(t, "pawait", j)
			}
		}
		if c.Shape == "late" && len(jb.Deps) > 0 {
			// dependents are enqueued only after (one of) their
			// dependencies has finished: the "already done" path.
			jb.Pace, jb.PArg = PAwait, jb.Deps[len(jb.Deps)-1]
		}
		if mixed {
			jb.Ctx = []int{CRoot, CRoot, CChild, CChild, CBack, COwn}[uniform(t, "ctx", 6)]
		}
	}
	switch cancelKind {
	case 1:
		k := uniform(t, "canceller", nj)
		if c.Jobs[k].Beh == BErr || (faulty && prob(t, "cancelerr", 0.3)) {
			c.Jobs[k].Beh = BCancelErr
		} else {
			c.Jobs[k].Beh = BCancelOk
		}
	case 2:
		c.CtxMode = MPre
	case 3:
		c.CtxMode = MTimer
		c.TimerAt = rapid.IntRange(0, 60).Draw(t, "timerat")
	}
	// error flavours (after the behaviours are final)
	var failing []int
	for j := range c.Jobs {
		if b := c.Jobs[j].Beh; b == BErr || b == BCancelErr {
			switch uniform(t, "errflavour", 10) {
			case 0:
				c.Jobs[j].EWrap = 1
			case 1:
				c.Jobs[j].EWrap = 2
			case 4:
				c.Jobs[j].EWrap = 3 // the error of a nested scheduler one of whose jobs exited its goroutine
			case 5:
				c.Jobs[j].EWrap = 4 // an error whose Is method matches every target
			case 2, 3:
				if len(failing) > 0 {
					c.Jobs[j].EShare = 1 + failing[uniform(t, "eshare", len(failing))]
				}
			}
			if c.Jobs[j].EShare == 0 {
				failing = append(failing, j)
			}
		}
	}
	if prob(t, "waitother", p.PWaitOther) {
		c.WaitCtx = []int{WBack, WBack, WOwnCancelled}[uniform(t, "waitctx", 3)]
	}
	if prob(t, "emit", p.PEmit) {
		c.Emit = []int{E1ns, E1ns, E1us, EDefault}[uniform(t, "emitkind", 4)]
	}
	if prob(t, "plan", p.PPlan) {
		c.Plan = genPlan(t)
	}
	if prob(t, "concenq", p.PConcEnq) {
		c.ConcEnq = rapid.IntRange(2, 4).Draw(t, "enqueuers")
		for j := range c.Jobs {
			if c.Jobs[j].Pace == PAwait {
				c.Jobs[j].Pace = PNone
			}
		}
	}
	c.ShareDeps = prob(t, "sharedeps", 0.3)
	c.CustomRoot = prob(t, "customroot", 0.15)
	if cancelCase && hooksEnabled && c.CtxMode == MNone && prob(t, "cancelatgot", 0.35) {
		c.CancelAtGot = 1 + uniform(t, "cancelatgotn", nj)
	}
	if prob(t, "widecase", 0.02) {
		makeWideCase(t, c)
	}
	if prob(t, "gatecase", p.PGate) {
		c.CancelAtGot = 0 // the promptness scenario has its own cancellation
		makeGateCase(t, c)
	} else if prob(t, "barriercase", p.PBarrier) {
		c.CancelAtGot = 0 // the capacity scenario has no cancellation
		makeBarrierCase(t, c)
	}
	return c
}

func pfOr(pf float64) float64 {
	if pf <= 0 {
		return 1
	}
	return pf
}

func genDeps(t *rapid.T, shape string, j, nj, width int) []int {
	if j == 0 {
		return nil
	}
	pick := func() int { return uniform(t, "dep", j) }
	switch shape {
	case "chain":
		return []int{j - 1}
	case "fanout":
		return []int{0}
	case "fanin":
		if j == nj-1 && j >= 1 {
			d := make([]int, j)
			for i := range d {
				d[i] = i
			}
			return d
		}
		return nil
	case "diamond":
		switch j % 4 {
		case 0:
			return []int{j - 1}
		case 1, 2:
			return []int{j - j%4}
		default:
			return []int{j - 2, j - 1}
		}
	case "layered":
		layer := j / width
		if layer == 0 {
			return nil
		}
		lo, hi := (layer-1)*width, layer*width-1
		k := rapid.IntRange(1, 3).Draw(t, "ndeps")
		d := make([]int, k)
		for i := range d {
			d[i] = lo + uniform(t, "dep", hi-lo+1)
		}
		return d
	case "isolated":
		if uniform(t, "iso", 4) != 0 {
			return nil
		}
		return []int{pick()}
	case "dup":
		k := rapid.IntRange(1, 3).Draw(t, "ndeps")
		var d []int
		for i := 0; i < k; i++ {
			x := pick()
			d = append(d, x)
			if rapid.Bool().Draw(t, "dupdep") {
				d = append(d, x)
			}
		}
		return d
	case "late":
		k := rapid.IntRange(0, 2).Draw(t, "ndeps")
		d := make([]int, k)
		for i := range d {
			d[i] = pick()
		}
		return d
	default: // random
		k := rapid.IntRange(0, 3).Draw(t, "ndeps")
		d := make([]int, 0, k)
		for i := 0; i < k; i++ {
			d = append(d, pick())
		}
		return d
	}
}

// NumPoints mirrors scheduler.VerifNumPoints (kept literal so that case
// generation does not depend on the build tag).
const NumPoints = 10

// Plan actions: 0 none, 1 yield, 2 yield x3, 3.. sleep (action-2) units.
func genPlan(t *rapid.T) [][]int {
	plan := make([][]int, NumPoints)
	for p := range plan {
		if !rapid.Bool().Draw(t, "planpoint") {
			continue
		}
		l := rapid.IntRange(1, 5).Draw(t, "planlen")
		plan[p] = make([]int, l)
		for s := range plan[p] {
			switch uniform(t, "planact", 10) {
			case 0, 1:
				plan[p][s] = 1
			case 2:
				plan[p][s] = 2
			case 3, 4:
				plan[p][s] = 3 + rapid.IntRange(0, 3).Draw(t, "plansleep")
			}
		}
	}
	return plan
}

// makeGateCase turns c into a promptness scenario: one job parks on a gate
// that the harness opens only after Wait has returned; the root context is
// cancelled by an independent job or by a timer, so Wait can (and must)
// return while the gated job is still parked.
// makeWideCase turns c into a case with a large concurrency limit (beyond
// any small constant a buffer might be capped at) and at least that many
// dependency-free jobs in flight at once: failing jobs end early, the others
// are still running when the failure is processed. Behaviours, contexts and
// error flavours stay as drawn.
func makeWideCase(t *rapid.T, c *Case) {
	c.N = rapid.IntRange(60, 100).Draw(t, "widen")
	nj := c.N + rapid.IntRange(0, 30).Draw(t, "wideextra")
	tmpl := c.Jobs
	jobs := make([]Job, nj)
	for j := range jobs {
		jb := tmpl[j%len(tmpl)]
		jb.Deps = nil
		if j >= c.N && uniform(t, "widedep", 3) == 0 {
			jb.Deps = []int{uniform(t, "dep", j)}
		}
		jb.Pace, jb.PArg = PNone, 0
		jb.EShare = 0
		if j >= len(tmpl) && Cancels(jb.Beh) {
			jb.Beh = BOk
		}
		if Fails(jb.Beh) || Cancels(jb.Beh) {
			jb.Kind, jb.Arg = KSleep, rapid.IntRange(1, 5).Draw(t, "widefast")
		} else {
			jb.Kind, jb.Arg = KSleep, rapid.IntRange(10, 40).Draw(t, "wideslow")
		}
		jobs[j] = jb
	}
	c.Jobs = jobs
	c.Shape = "wide"
	c.ConcEnq = 0
	c.CancelAtGot = 0
}

func makeGateCase(t *rapid.T, c *Case) {
	c.WaitCtx = WRoot
	c.ConcEnq = 0
	if c.N == 1 || len(c.Jobs) < 2 {
		// With a single worker only an external cancellation can happen
		// while the gated job occupies it.
		c.CtxMode = MTimer
		c.TimerAt = rapid.IntRange(0, 40).Draw(t, "gatetimer")
		g := uniform(t, "gatejob", len(c.Jobs))
		c.Gate = g + 1
		for j := range c.Jobs {
			if Cancels(c.Jobs[j].Beh) {
				c.Jobs[j].Beh = BOk
			}
			if c.Jobs[j].Pace == PAwait {
				c.Jobs[j].Pace = PNone
			}
		}
		return
	}
	// canceller: job 0 made independent; gate: some later job.
	for j := range c.Jobs {
		if Cancels(c.Jobs[j].Beh) {
			c.Jobs[j].Beh = BOk
		}
		if c.Jobs[j].Pace == PAwait {
			c.Jobs[j].Pace = PNone
		}
	}
	if rapid.Bool().Draw(t, "gateTimerToo") {
		c.CtxMode = MTimer
		c.TimerAt = rapid.IntRange(0, 40).Draw(t, "gatetimer")
	} else {
		c.CtxMode = MNone
		c.Jobs[0].Deps = nil
		c.Jobs[0].Beh = BCancelOk
		c.Jobs[0].Ctx = CRoot
	}
	g := 1 + uniform(t, "gatejob", len(c.Jobs)-1)
	// the gated job must not be an ancestor of the canceller (job 0 has no
	// deps, so it is not) and is enqueued after it.
	c.Gate = g + 1
}

// makeBarrierCase turns c into a capacity scenario: a prefix of jobs
// (possibly exiting their goroutine with Goexit) followed by exactly
// Limit independent jobs that meet at a barrier. If fewer than Limit
// workers are alive, they can never all be running at once.
func makeBarrierCase(t *rapid.T, c *Case) {
	c.COE = true // goexit jobs report an error; keep the scheduler going
	c.CtxMode = MNone
	c.WaitCtx = WBack
	c.ConcEnq = 0
	c.Gate = 0
	width := c.N
	if c.N == 0 {
		// default limit: max(GOMAXPROCS, 4) - pin GOMAXPROCS so that the case replays
		c.Procs = []int{1, 2, 3, 4, 6}[uniform(t, "procs", 5)]
		width = c.Limit(c.Procs)
	} else if c.N > 12 {
		c.N = rapid.IntRange(1, 12).Draw(t, "barriern")
		width = c.N
	}
	npre := rapid.IntRange(0, 2*width+2).Draw(t, "npre")
	jobs := make([]Job, 0, npre+c.N)
	for i := 0; i < npre; i++ {
		jb := Job{}
		if uniform(t, "pregoexit", 3) != 0 {
			jb.Beh = BGoexit
		}
		if uniform(t, "preown", 3) == 0 {
			// the job's own context ends while it runs (Enqueue takes a context per job)
			jb.Ctx = COwn
		}
		if rapid.Bool().Draw(t, "presleep") {
			jb.Kind, jb.Arg = KSleep, rapid.IntRange(1, 10).Draw(t, "sleep")
		}
		jobs = append(jobs, jb)
	}
	for i := 0; i < width; i++ {
		jb := Job{}
		if npre > 0 && i == 0 {
			// start the barrier phase only after the prefix is over
			jb.Pace, jb.PArg = PAwait, npre-1
		}
		jobs = append(jobs, jb)
	}
	c.Jobs = jobs
	c.Barrier = width
	c.Shape = "barrier"
}

// Labels classifies the case for the evidence histogram.
func (c *Case) Labels() []string {
	var l []string
	add := func(s string) { l = append(l, s) }
	add("shape:" + c.Shape)
	if c.COE {
		add("mode:coe")
	} else {
		add("mode:failfast")
	}
	switch {
	case c.N == 0:
		add("n:default")
	case c.N == 1:
		add("n:1")
	case c.N == 2:
		add("n:2")
	default:
		add("n:3+")
	}
	fanin, dup, fail, goexit, cancel, late := false, false, 0, false, false, false
	ewrap, eshare, enested := false, false, false
	for _, j := range c.Jobs {
		seen := map[int]bool{}
		for _, d := range j.Deps {
			if seen[d] {
				dup = true
			}
			seen[d] = true
		}
		if len(seen) >= 2 {
			fanin = true
		}
		if Fails(j.Beh) {
			fail++
		}
		if j.Beh == BGoexit {
			goexit = true
		}
		if Cancels(j.Beh) {
			cancel = true
		}
		if (j.Beh == BErr || j.Beh == BCancelErr) && (j.EWrap == 1 || j.EWrap == 2) {
			ewrap = true
		}
		if (j.Beh == BErr || j.Beh == BCancelErr) && j.EWrap == 3 {
			enested = true
		}
		if (j.Beh == BErr || j.Beh == BCancelErr) && j.EShare > 0 {
			eshare = true
		}
		if j.Pace == PAwait && len(j.Deps) > 0 {
			late = true
		}
	}
	if c.CancelAtGot > 0 {
		add("cancel:at-worker-got-job")
	}
	if c.CustomRoot {
		add("ctx:hand-written-root-still-live-after-the-run")
	}
	if c.ShareDeps && c.ConcEnq <= 1 {
		sharedSeen := map[string]bool{}
		for _, j := range c.Jobs {
			if len(j.Deps) == 0 {
				continue
			}
			k := fmt.Sprint(j.Deps)
			if sharedSeen[k] {
				add("deps:one-slice-shared-by-several-jobs")
				break
			}
			sharedSeen[k] = true
		}
	}
	if ewrap {
		add("err:wraps-ctx-error")
	}
	if eshare {
		add("err:shared-instance")
	}
	if enested {
		add("err:from-nested-scheduler-goexit")
	}
	if fanin {
		add("fanin>=2")
	}
	if dup {
		add("dupdeps")
	}
	if late {
		add("late-enqueue")
	}
	switch {
	case fail == 0:
		add("fail:0")
	case fail == 1:
		add("fail:1")
	case fail <= 3:
		add("fail:2-3")
	default:
		add("fail:4+")
	}
	if goexit {
		add("goexit")
	}
	if cancel {
		add("cancel:injob")
	}
	switch c.CtxMode {
	case MPre:
		add("cancel:pre")
	case MTimer:
		add("cancel:timer")
	}
	if c.Emit != ENil {
		add(fmt.Sprintf("emit:%d", c.Emit))
	}
	if c.Gate > 0 {
		add("gate")
	}
	if c.Barrier > 0 {
		add("barrier")
	}
	if c.Shape == "wide" {
		add("wide")
	}
	if c.ConcEnq > 1 {
		add("concenq")
	}
	if len(c.Plan) > 0 {
		add("plan")
	}
	if c.WaitCtx != WRoot {
		add(fmt.Sprintf("waitctx:%d", c.WaitCtx))
	}
	return l
}
