package verifsched

import (
	"os"
	"testing"
	"time"

	"pgregory.net/rapid"
)

var rtMode = Mode{ST: false, Unit: time.Microsecond}

// TestRT is the real-time engine (E-SCHED-RT): real goroutines, real clock.
func TestRT(t *testing.T) {
	m := rtMode
	m.SampleGoroutines = *flagProp == "C03"
	if r, ok := loadReplay(t); ok {
		for i := 0; i < 50; i++ {
			h, inc := RunWithWatchdog(r.Case, m, 30*time.Second)
			if inc != nil {
				t.Skipf("%v", inc)
			}
			if mine, _ := relevant(Check(r.Case, h)); len(mine) > 0 {
				t.Fatalf("replay reproduces:\n%s", fmtFindings(mine))
			}
		}
		return
	}
	prof := profileFor(*flagProp, *flagTier == "thorough")
	log := openLog("rt")
	defer log.close()
	rapid.Check(t, func(rt *rapid.T) {
		c := GenCase(rt, prof)
		for rep := 0; rep < reps(); rep++ {
			h, inc := RunWithWatchdog(c, m, 30*time.Second)
			if inc != nil {
				// never a violation: the run could not be judged
				writeInconclusive(inc.Error())
				t.Logf("%v", inc)
				if !settle(90 * time.Second) {
					writeInconclusive("stopped: an abandoned scheduler is still alive, its hook events would pollute further cases")
					log.close()
					os.Exit(0)
				}
				rt.Skip(inc.Error())
			}
			fs := Check(c, h)
			mine, other := relevant(fs)
			log.add(c, NonTrivial(*flagProp, c, h), other, extras(h))
			if h.Hang != "" && len(mine) == 0 {
				// a hang is another property's finding, but this process is now
				// wedged (blocked goroutines, a scheduler that never finishes):
				// nothing further can be judged reliably in it
				writeInconclusive("stopped after a hang that belongs to another property")
				log.close()
				os.Exit(0)
			}
			if len(mine) > 0 {
				failedOnce.Store(true)
				writeFail("rt", c, mine)
				if h.Hang != "" {
					// the process is wedged; shrinking would only hang again
					t.Logf("case: %s", c.JSON())
					t.Fatalf("%s", fmtFindings(mine))
				}
				rt.Fatalf("case %s\n%s", c.JSON(), fmtFindings(mine))
			}
		}
	})
}

func extras(h *Hist) map[string]int64 {
	if h == nil || h.Hang != "" {
		return nil
	}
	m := map[string]int64{}
	if n := h.NReports.Load(); n > 0 {
		m["reports"] = n
		m["reports_busy"] = h.NReportsBusy.Load()
	}
	if h.MaxHookOngoing.Load() > 0 {
		m["max_ongoing"] = h.MaxHookOngoing.Load()
	}
	return m
}
