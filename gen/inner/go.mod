module vinner

go 1.23

require (
	go.uber.org/cff v0.0.0
	go.uber.org/multierr v1.11.0
	pgregory.net/rapid v1.3.0
	vcase v0.0.0
)

replace go.uber.org/cff => /repo

replace vcase => ../vcase
