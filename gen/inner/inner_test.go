// Package inner is the inner driver of engine E-BIN: it is compiled together
// with one generated case module (vcase) after the cff binary processed it,
// draws scenarios with rapid for every generated directive, executes the
// compiled generated code and compares the event log with the reference
// interpreters in vcase/rt.
package inner

import (
	"context"
	"encoding/json"
	"flag"
	"fmt"
	"os"
	"path/filepath"
	"runtime"
	"strings"
	"sync"
	"sync/atomic"
	"testing"
	"time"

	"pgregory.net/rapid"
	_ "vcase/p"
	"vcase/rt"
)

var (
	flagProp   = flag.String("prop", "C02", "property id: selects the scenario domain and the relevant findings")
	flagSpecs  = flag.String("specs", "", "path of specs.json")
	flagOut    = flag.String("out", "", "directory for logs and failure records")
	flagScn    = flag.Int("scn", 50, "scenarios per directive")
	flagProgs  = flag.String("progs", "", "comma separated directive names (default: all)")
	flagReplay = flag.String("replay", "", "scenario replay file")
	flagTag    = flag.String("tag", "0", "names the output files")
	flagMaxLen = flag.Int("maxlen", 12, "maximum collection size")
	flagHammer = flag.Int("hammer", 0, "C05/C06 stress phase: executions per selected early-stop scenario (0 = off)")
)

type fileSpec struct {
	Name  string     `json:"name"`
	Progs []*rt.Spec `json:"progs"`
}
type pkgSpec struct {
	Files []*fileSpec `json:"files"`
}

func uniform(t *rapid.T, label string, n int) int {
	if n <= 1 {
		return 0
	}
	v := 0
	for i := 0; i < 16; i++ {
		v <<= 1
		if rapid.Bool().Draw(t, label) {
			v |= 1
		}
	}
	return int(uint64(v) * uint64(n) >> 16)
}

func prob(t *rapid.T, label string, p float64) bool {
	return p > 0 && (p >= 1 || uniform(t, label, 1000) < int(p*1000))
}

// domain describes the scenario space of one property.
type domain struct {
	pFault    float64 // probability that a scenario injects faults at all
	perUnit   float64 // per-unit fault probability inside a faulty scenario
	panics    float64 // fraction of faults that are panics
	predFalse float64
	predPanic float64
	cancel    float64
	g         []int // choices for the number of simultaneous executions
	elemFault float64
	sleepy    float64
	gate      float64
	rdv       float64 // C03: rendezvous of everything that is runnable from the start
	pfirst    float64 // C04: panic recorded first, other failures afterwards (needs scheduler hooks)
	rootfail  float64 // C20: one worker, only dependency-free tasks fail
	goexit    float64 // fraction of faults that kill the goroutine with runtime.Goexit
}

func domainFor(prop string) domain {
	d := domain{g: []int{1, 1, 1, 2, 4}, predFalse: 0.3, sleepy: 0.3}
	switch prop {
	case "C02":
		d.g = []int{1, 1, 2, 8}
	case "C10":
		// mostly clean runs; element failures exercise "End hook never after a failed element"
		d.pFault, d.perUnit, d.panics, d.elemFault = 0.3, 0, 0.4, 0.3
	case "C03":
		d.pFault, d.perUnit, d.elemFault, d.goexit = 0.3, 0.2, 0.15, 0.6
		d.sleepy = 0.8 // overlapping executions are what the limit is about
		d.rdv = 0.5
	case "C15":
	case "C01":
		d.pFault, d.perUnit, d.panics = 0.4, 0.2, 0.3
	case "C04":
		d.pFault, d.perUnit, d.panics, d.predPanic, d.elemFault = 1, 0.35, 1, 0.25, 0.2
		d.pfirst = 0.2
		d.g = []int{1, 1, 2, 4}
	case "C07":
		d.pFault, d.perUnit, d.panics, d.elemFault = 1, 0.3, 0.3, 0.15
		d.predPanic = 0.15 // a panicking predicate is a failure of its task
	case "C08":
		d.pFault, d.perUnit, d.panics, d.elemFault = 0.9, 0.35, 0.3, 0.25
	case "C05", "C06":
		d.pFault, d.perUnit, d.panics, d.elemFault, d.cancel, d.predPanic = 0.7, 0.3, 0.4, 0.2, 0.35, 0.15
		d.goexit = 0.25
		d.g = []int{1, 1, 2, 4}
	case "C09":
		d.cancel, d.pFault, d.perUnit = 1, 0.2, 0.2
	case "C11":
		d.pFault, d.perUnit, d.panics, d.predFalse, d.predPanic = 0.7, 0.4, 0.4, 0.35, 0.2
		d.gate = 0.6
	case "C18":
		d.pFault, d.perUnit, d.panics, d.predFalse, d.predPanic = 0.7, 0.35, 0.4, 0.3, 0.15
	case "C12":
		d.pFault, d.perUnit, d.panics, d.cancel = 0.5, 0.25, 0.3, 0.2
		d.g = []int{1, 2, 4}
	case "C20":
		d.pFault, d.perUnit, d.panics = 0.6, 0.3, 0.4
		d.g = []int{1}
		d.rootfail = 0.3
	}
	return d
}

func genScenario(t *rapid.T, s *rt.Spec, d domain) *rt.Scenario {
	maxLen := *flagMaxLen
	if *flagProp == "C03" && maxLen < 60 {
		maxLen = 60 // goroutines must not grow with the number of elements
	}
	scn := &rt.Scenario{Seed: uint64(1 + uniform(t, "seed", 1<<16)), Out: make([]rt.Outcome, s.Units), Pred: make([]int, s.Units)}
	kinds := s.UnitKinds()
	faulty := prob(t, "faulty", d.pFault)
	timing := func(o *rt.Outcome) {
		if prob(t, "sleepy", d.sleepy) {
			if uniform(t, "tkind", 2) == 0 {
				o.T = 1
			} else {
				o.T, o.D = 2, 1+uniform(t, "sleep", 30)
			}
		}
	}
	fault := func(o *rt.Outcome, p float64) {
		if faulty && prob(t, "fault", p) {
			if prob(t, "goexit", d.goexit) {
				o.K = rt.OGoexit
			} else if prob(t, "panic", d.panics) {
				o.K, o.PV = rt.OPanic, uniform(t, "pv", 11)
			} else {
				o.K, o.EV = rt.OErr, []int{0, 0, 0, 0, 1, 2, 3, 3, 4, 5}[uniform(t, "ev", 10)]
			}
		}
	}
	for u := range scn.Out {
		timing(&scn.Out[u])
		switch kinds[u] {
		case rt.UPred:
			switch {
			case faulty && prob(t, "predpanic", d.predPanic):
				scn.Pred[u] = rt.PPanic
				scn.Out[u].PV = uniform(t, "pv", 11)
			case prob(t, "predfalse", d.predFalse):
				scn.Pred[u] = rt.PFalse
			}
		case rt.USliceFn, rt.UMapFn:
			// default outcome of element calls is ok; per-element faults below
		default:
			fault(&scn.Out[u], d.perUnit)
		}
	}
	scn.Colls = make([][]uint64, s.Colls)
	scn.CollNil = make([]bool, s.Colls)
	collUnit := map[int]int{}
	for _, sl := range s.Slices {
		collUnit[sl.Coll] = sl.Unit
	}
	for _, mp := range s.Maps {
		collUnit[mp.Coll] = mp.Unit
	}
	collOf := map[int]int{} // unit -> collection
	for c, u := range collUnit {
		collOf[u] = c
	}
	for c := range scn.Colls {
		var n int
		switch uniform(t, "lenclass", 8) {
		case 0:
			scn.CollNil[c] = true
		case 1:
			n = 0
		case 2:
			n = 1
		case 3:
			n = 2
		default:
			n = 3 + uniform(t, "len", maxLen-2)
		}
		if !scn.CollNil[c] {
			scn.Colls[c] = make([]uint64, n)
			for i := range scn.Colls[c] {
				scn.Colls[c][i] = rt.Mix(5, scn.Seed, uint64(c), uint64(i))
				var o rt.Outcome
				if prob(t, "elemsleepy", d.sleepy/2) {
					o.T, o.D = 2, 1+uniform(t, "sleep", 20)
				}
				fault(&o, d.elemFault)
				if o != (rt.Outcome{}) {
					scn.Elems = append(scn.Elems, rt.ElemOutcome{Unit: collUnit[c], Elem: i, O: o})
				}
			}
		}
	}
	scn.CustomCtx = prob(t, "customctx", 0.25)
	scn.N = 1 + uniform(t, "n", 4)
	scn.COE = uniform(t, "coe", 2) == 0
	if d.gate > 0 && !faulty && s.Kind == "flow" && prob(t, "gate", d.gate) {
		if cands := rt.GateCandidates(s); len(cands) > 0 && !strings.HasPrefix(s.Conc, "const:1") {
			c := cands[uniform(t, "gatecand", len(cands))]
			scn.GateU, scn.GateFor = c[0]+1, c[1]+1
			if scn.N < 2 {
				scn.N = 2
			}
			// everything must actually run: no false predicates upstream
			for u := range scn.Pred {
				scn.Pred[u] = rt.PTrue
			}
		}
	}
	scn.G = d.g[uniform(t, "g", len(d.g))]
	if d.rdv > 0 && !faulty && prob(t, "rdv", d.rdv) {
		// small collections (so that everything fits under the limit) and,
		// often, empty ones whose End function is then runnable from the start
		hasEnd := map[int]bool{}
		for _, sl := range s.Slices {
			hasEnd[sl.Coll] = sl.End != nil
		}
		for _, mp := range s.Maps {
			hasEnd[mp.Coll] = mp.End != nil
		}
		for c := range scn.Colls {
			switch {
			case hasEnd[c] && prob(t, "rdvempty", 0.5):
				scn.Colls[c] = []uint64{}
			case len(scn.Colls[c]) > 2 && prob(t, "rdvshort", 0.6):
				scn.Colls[c] = scn.Colls[c][:1+uniform(t, "rdvlen", 2)]
			}
		}
		var keep []rt.ElemOutcome
		for _, eo := range scn.Elems {
			if c, ok := collOf[eo.Unit]; ok && eo.Elem < len(scn.Colls[c]) {
				keep = append(keep, eo)
			}
		}
		scn.Elems = keep
		if units, n := rt.RdvPlan(s, scn); n >= 2 {
			k := rt.ConcLimit(s, scn)
			if n < k {
				k = n
			}
			if k >= 2 {
				scn.Rdv, scn.RdvUnits, scn.G = k, units, 1
			}
		}
	}
	// (no other scheduler job may exist: no further directives in the function,
	// and not the generic enclosure, whose type parameter feeds a task of its own)
	if d.pfirst > 0 && rt.HooksOn && s.Extra == 0 && s.Encl != "generic" && prob(t, "pfirst", d.pfirst) &&
		!(s.COE == "true" || s.COE == "bctrue" || s.COE == "expr") {
		// candidates: dependency-free functions that are not element functions
		units, n := rt.RdvPlan(s, scn)
		var single []int
		for _, u := range units {
			if k := kinds[u]; k != rt.USliceFn && k != rt.UMapFn {
				single = append(single, u)
			}
		}
		// the panicking function must not have a FallbackWith that absorbs the panic
		absorbed := map[int]bool{}
		for _, ts := range s.Tasks {
			if ts.Fallback {
				absorbed[ts.Unit] = true
				if ts.Pred != nil {
					absorbed[ts.Pred.Unit] = true
				}
			}
		}
		var acands []int
		for _, u := range single {
			if !absorbed[u] {
				acands = append(acands, u)
			}
		}
		if len(single) >= 2 && len(acands) >= 1 && n <= rt.ConcLimit(s, scn) {
			a := acands[uniform(t, "pfa", len(acands))]
			b := a
			for b == a {
				b = single[uniform(t, "pfb", len(single))]
			}
			// an otherwise clean scenario
			for u := range scn.Out {
				scn.Out[u] = rt.Outcome{T: scn.Out[u].T, D: scn.Out[u].D}
				scn.Pred[u] = rt.PTrue
			}
			for i := range scn.Elems {
				scn.Elems[i].O = rt.Outcome{T: scn.Elems[i].O.T, D: scn.Elems[i].O.D}
			}
			scn.Out[a].K, scn.Out[a].PV = rt.OPanic, uniform(t, "pfpv", 11)
			if s.UnitCanErr()[b] && prob(t, "pfberr", 0.7) {
				scn.Out[b].K = rt.OErr
			} else {
				scn.Out[b].K, scn.Out[b].PV = rt.OPanic, uniform(t, "pfpv2", 5)
			}
			scn.PFirst, scn.G, scn.Rdv, scn.GateU, scn.GateFor = a+1, 1, 0, 0, 0
			for _, u := range units {
				if u != a {
					scn.PFirstUnits = append(scn.PFirstUnits, u)
				}
			}
			return scn
		}
	}
	if d.rootfail > 0 && s.Kind == "flow" && (s.Conc == "const:1" || s.Conc == "expr") && prob(t, "rootfail", d.rootfail) {
		roots, _ := rt.RdvPlan(s, scn)
		var cands []int
		for _, u := range roots {
			if kinds[u] == rt.UTask && s.UnitCanErr()[u] {
				cands = append(cands, u)
			}
		}
		if len(cands) >= 2 {
			for u := range scn.Out {
				scn.Out[u] = rt.Outcome{T: scn.Out[u].T, D: scn.Out[u].D}
				scn.Pred[u] = rt.PTrue
			}
			nf := 2 + uniform(t, "rootfailn", 2)
			for i := 0; i < nf; i++ {
				scn.Out[cands[uniform(t, "rootfailu", len(cands))]].K = rt.OErr
			}
			scn.N, scn.G, scn.RootFail = 1, 1, true
			scn.Rdv, scn.GateU, scn.GateFor, scn.PFirst = 0, 0, 0, 0
			return scn
		}
	}
	if scn.Rdv == 0 && prob(t, "cancel", d.cancel) {
		switch uniform(t, "cancelkind", 4) {
		case 0:
			scn.CancelK = rt.CPre
		case 1:
			scn.CancelK, scn.CancelD = rt.CTimer, uniform(t, "canceld", 60)
		default:
			scn.CancelK, scn.CancelU = rt.CInUnit, uniform(t, "cancelu", s.Units)
		}
	}
	return scn
}

// clean returns the scenario with all faults and cancellations removed.
func clean(s *rt.Scenario) *rt.Scenario {
	c := *s
	c.Out = make([]rt.Outcome, len(s.Out))
	for i, o := range s.Out {
		c.Out[i] = rt.Outcome{T: o.T, D: o.D}
	}
	c.Pred = make([]int, len(s.Pred))
	for i, p := range s.Pred {
		if p == rt.PFalse {
			c.Pred[i] = rt.PFalse
		}
	}
	c.Elems = nil
	c.CancelK = rt.CNone
	return &c
}

type execResult struct {
	baseG        int // goroutines of the process before the executions started
	runs         []*rt.Run
	leak         string
	inconclusive string
	hang         string
}

// execute runs G simultaneous executions of the directive.
var hooksOnce sync.Once

func execute(s *rt.Spec, scn *rt.Scenario, prop string) *execResult {
	return executeAs(s, scn, prop, s.Name)
}

func executeAs(s *rt.Spec, scn *rt.Scenario, prop, regName string) *execResult {
	prog := rt.Lookup(regName)
	if prog == nil {
		panic("program not registered: " + regName)
	}
	g := scn.G
	if s.PkgState {
		g = 1 // the program writes package-level variables: never two executions at once
	}
	if g < 1 {
		g = 1
	}
	base := rt.SchedIDs()
	var baseAll map[int64]bool
	if prop == "C03" {
		baseAll = rt.AllIDs()
	}
	res := &execResult{runs: make([]*rt.Run, g), baseG: runtime.NumGoroutine()}
	var wg sync.WaitGroup
	for i := 0; i < g; i++ {
		sc := scn
		if i > 0 && (prop == "C04" || prop == "C07") && i%2 == 1 {
			sc = clean(scn) // an unfaulted sibling directive running at the same time
		}
		env := rt.NewEnv(i, s, sc)
		env.Race = prop == "C12"
		env.Census = prop == "C03"
		if rt.HooksOn {
			// (the inner driver of C04 is built with the scheduler's hook points)
			hooksOnce.Do(func() { rt.InstallHooks(); rt.SetPerturb(true) })
		}
		if sc.PFirst > 0 {
			if len(base) > 0 {
				// schedulers of an earlier, abandoned execution are still alive:
				// their results would release the parked functions early
				env.PFirstUnreleased.Store(true)
			}
		}
		env.BaseG = baseAll
		env.Solo = g == 1
		run := &rt.Run{Env: env, Mode: prop}
		res.runs[i] = run
		ctx, cancel := context.WithCancel(rt.WithEnv(context.Background(), env))
		if sc.CustomCtx {
			cancel() // not used
			mc := rt.NewManualCtx(rt.WithEnv(context.Background(), env))
			ctx, cancel = mc, mc.Cancel
		}
		env.Cancel = cancel
		if sc.CancelK == rt.CPre {
			cancel()
			env.CancelSeq.Store(rt.Seq())
		}
		wg.Add(1)
		go func() {
			defer wg.Done()
			defer cancel()
			if sc.CancelK == rt.CTimer {
				go func() {
					time.Sleep(time.Duration(sc.CancelD) * time.Microsecond)
					cancel()
					env.CancelSeq.CompareAndSwap(0, rt.Seq())
				}()
			}
			defer func() {
				if r := recover(); r != nil {
					run.Panicked = r
				}
			}()
			env.CallGid = rt.Gid()
			env.CallSeq = rt.Seq()
			run.Err = prog(env, ctx)
			env.RetSeq = rt.Seq()
		}()
	}
	done := make(chan struct{})
	go func() { wg.Wait(); close(done) }()
	select {
	case <-done:
	case <-time.After(60 * time.Second):
		if d, ok := rt.AwaitNoSched(map[int64]bool{}, 3*time.Second); ok && d != "" {
			res.hang = d
		} else if d, ok := rt.HangDump(); ok {
			res.hang = d // stuck outside the scheduler package (generated code, cff runtime)
		} else {
			res.inconclusive = "directive did not return within 60s but the process is not in a stable blocked state"
		}
		return res
	}
	for _, r := range res.runs {
		if r.Env.GateInconclusive.Load() {
			res.inconclusive = "gate scenario timed out while the process was still busy (slow machine): " + r.Env.InconclusiveWhy
		}
	}
	leak, ok := rt.AwaitNoSched(base, 20*time.Second)
	if !ok {
		res.inconclusive = "scheduler goroutines still present after the directive returned, not in a stable blocked state"
	}
	res.leak = leak
	return res
}

type failRecord struct {
	Prop     string       `json:"property"`
	Engine   string       `json:"engine"`
	Prog     string       `json:"prog"`
	Spec     *rt.Spec     `json:"spec"`
	Scenario *rt.Scenario `json:"scenario"`
	Findings []rt.Finding `json:"findings"`
	Hammer   int          `json:"hammer,omitempty"` // >0: the scenario fails under this many repeated executions (stress phase)
}

func outPath(name string) string {
	if *flagOut == "" {
		return ""
	}
	return filepath.Join(*flagOut, name)
}

func writeJSON(path string, v interface{}) {
	if path == "" {
		return
	}
	b, _ := json.MarshalIndent(v, "", " ")
	os.WriteFile(path, b, 0o644)
}

func scnHash(s *rt.Spec, scn *rt.Scenario) string {
	b, _ := json.Marshal(scn)
	return fmt.Sprintf("%s/%x", s.Name, rt.Mix(hashBytes(b)))
}

func hashBytes(b []byte) uint64 {
	h := uint64(1469598103934665603)
	for _, c := range b {
		h ^= uint64(c)
		h *= 1099511628211
	}
	return h
}

// evaluate runs all oracles for one execution set.
func evaluate(s *rt.Spec, scn *rt.Scenario, prop string) (mine, other []rt.Finding, res *execResult) {
	res = execute(s, scn, prop)
	var all []rt.Finding
	if prop == "C20" && res.hang == "" && res.inconclusive == "" && rt.Lookup(s.Name+"@mod") != nil {
		// differential: the same scenario against the modifier-mode twin
		writeJSON(outPath("cur-"+*flagTag+".json"), failRecord{Prop: prop, Engine: "bin", Prog: s.Name, Spec: s, Scenario: scn,
			Findings: []rt.Finding{{Prop: "C20", Msg: "the process died while the modifier-mode twin of this flow was executing this scenario (base-mode code had just handled it)"}}})
		res2 := executeAs(s, scn, prop, s.Name+"@mod")
		switch {
		case res2.hang != "":
			all = append(all, rt.Finding{Prop: "C20", Msg: "the modifier-mode flow never returned"})
		case res2.inconclusive != "":
			res.inconclusive = res2.inconclusive
		default:
			all = append(all, rt.Differential(res.runs[0], res2.runs[0])...)
			// the full oracle on the modifier-mode code: a finding about
			// invocations, inputs, results or errors that the base-mode code does
			// not show for the same scenario means the two modes disagree (C20);
			// anything else keeps its own property
			baseHas := map[string]bool{}
			for _, f := range rt.Check(res.runs[0]) {
				baseHas[f.Prop] = true
			}
			for _, f := range rt.Check(res2.runs[0]) {
				prop := f.Prop
				switch prop {
				case "C01", "C02", "C04", "C07":
					if !baseHas[prop] {
						prop = "C20"
					}
				}
				all = append(all, rt.Finding{Prop: prop, Msg: "modifier-mode code: " + f.Msg})
			}
		}
	}
	if res.hang != "" {
		all = append(all, rt.Finding{Prop: "C05", Msg: "the directive never returned; every goroutine is blocked:\n" + res.hang})
	} else if res.inconclusive == "" {
		for _, r := range res.runs {
			all = append(all, rt.CheckPanicFirst(r)...)
			all = append(all, rt.Check(r)...)
		}
		if res.leak != "" {
			all = append(all, rt.Finding{Prop: "C06", Msg: "scheduler goroutines remain blocked after the directive returned:\n" + res.leak})
		}
		if prop == "C03" && s.Extra == 0 {
			// (not judged when the enclosing function holds further directives:
			// their schedulers use the default limit and may still be winding down)
			// Goroutines started by the scheduler, the cff runtime or generated
			// code are bounded by the limit only: per simultaneous execution the
			// scheduler loop, the goroutine that spawns the workers, `limit`
			// workers, plus one replacement per Goexit (old and new may overlap).
			maxG, bound, info := 0, 0, ""
			for _, r := range res.runs {
				if n := int(r.Env.MaxG.Load()); n > maxG {
					maxG, info = n, r.Env.MaxGInfo
				}
				bound += rt.ConcLimit(s, r.Env.Scn) + 2
				for _, inj := range r.Env.Injected {
					if inj.Goexit {
						bound++
					}
				}
			}
			if maxG > bound {
				all = append(all, rt.Finding{Prop: "C03", Msg: fmt.Sprintf("%d goroutines started by the scheduler or by generated code existed while user functions of the directive ran; with %d simultaneous executions the limit allows at most %d: the number of goroutines is not bounded by the limit alone:\n%s", maxG, len(res.runs), bound, info)})
			}
		}
	}
	for _, f := range all {
		if f.Prop == prop {
			mine = append(mine, f)
		} else {
			other = append(other, f)
		}
	}
	return
}

func fmtFindings(fs []rt.Finding) string {
	var sb strings.Builder
	for i, f := range fs {
		if i >= 6 {
			fmt.Fprintf(&sb, "... and %d more\n", len(fs)-i)
			break
		}
		fmt.Fprintf(&sb, "[%s] %s\n", f.Prop, f.Msg)
	}
	return sb.String()
}

func TestInner(t *testing.T) {
	b, err := os.ReadFile(*flagSpecs)
	if err != nil {
		t.Fatalf("specs: %v", err)
	}
	var pkg pkgSpec
	if err := json.Unmarshal(b, &pkg); err != nil {
		t.Fatalf("specs: %v", err)
	}
	want := map[string]bool{}
	for _, n := range strings.Split(*flagProgs, ",") {
		if n != "" {
			want[n] = true
		}
	}
	prop := *flagProp
	d := domainFor(prop)
	var logf *os.File
	if p := outPath("scn-" + *flagTag + ".jsonl"); p != "" {
		logf, _ = os.Create(p)
		defer logf.Close()
	}
	curPath := outPath("cur-" + *flagTag + ".json")

	if *flagReplay != "" {
		rb, err := os.ReadFile(*flagReplay)
		if err != nil {
			t.Fatal(err)
		}
		var fr failRecord
		if err := json.Unmarshal(rb, &fr); err != nil {
			t.Fatal(err)
		}
		for _, f := range pkg.Files {
			for _, s := range f.Progs {
				if s.Name != fr.Prog {
					continue
				}
				if fr.Hammer > 0 {
					res := hammer(s, fr.Scenario, 4*fr.Hammer)
					if res.inconclusive != "" {
						t.Skip(res.inconclusive)
					}
					if fs := hammerFindings(res, prop); len(fs) > 0 {
						t.Fatalf("replay reproduces:\n%s", fmtFindings(fs))
					}
					continue
				}
				for i := 0; i < 30; i++ {
					mine, _, res := evaluate(s, fr.Scenario, prop)
					if res.inconclusive != "" {
						t.Skip(res.inconclusive)
					}
					if len(mine) > 0 {
						t.Fatalf("replay reproduces:\n%s", fmtFindings(mine))
					}
				}
			}
		}
		return
	}

	for _, f := range pkg.Files {
		for _, s := range f.Progs {
			if len(want) > 0 && !want[s.Name] {
				continue
			}
			s := s
			failed := false
			func() {
				// one rapid search per directive; failures of one directive
				// must not stop the others
				defer func() { recover() }()
				st := &testing.T{}
				_ = st
				rapid.Check(subT{t, &failed}, func(rt_ *rapid.T) {
					scn := genScenario(rt_, s, d)
					writeJSON(curPath, failRecord{Prop: prop, Engine: "bin", Prog: s.Name, Spec: s, Scenario: scn,
						Findings: []rt.Finding{{Prop: "C04", Msg: "the process died while this scenario was executing (a panic escaped the generated code)"}}})
					if hm := hammerScenario(rt_, s, scn, prop); hm != nil {
						// stress phase (C05/C06): rare windows - a job finishing at the
						// very moment the directive gives up - need very many executions
						// of one early-stop scenario rather than many scenarios
						res := hammer(s, hm, *flagHammer)
						if logf != nil {
							lb, _ := json.Marshal(map[string]interface{}{"h": scnHash(s, hm) + "/hammer", "prog": s.Name, "faults": 1, "g": 8, "hammer": *flagHammer})
							logf.Write(append(lb, '\n'))
						}
						if fs := hammerFindings(res, prop); len(fs) > 0 {
							failed = true
							writeJSON(outPath("fail-"+*flagTag+".json"), failRecord{Prop: prop, Engine: "bin", Prog: s.Name, Spec: s, Scenario: hm, Findings: fs, Hammer: *flagHammer})
							// a stuck process cannot be shrunk or re-run: stop the whole inner driver
							t.Logf("directive %s scenario %s\n%s", s.Name, mustJSON(hm), fmtFindings(fs))
							os.Exit(1)
						}
					}
					reps := 1
					if failed {
						reps = 10
					}
					for rep := 0; rep < reps; rep++ {
						mine, other, res := evaluate(s, scn, prop)
						if res.inconclusive != "" {
							if f, err := os.OpenFile(outPath("skips-"+*flagTag+".txt"), os.O_APPEND|os.O_CREATE|os.O_WRONLY, 0o644); err == nil {
								fmt.Fprintf(f, "%s: %s\n", s.Name, res.inconclusive)
								f.Close()
							}
							rt_.Skip(res.inconclusive)
						}
						if logf != nil {
							ll := map[string]interface{}{"h": scnHash(s, scn), "prog": s.Name, "faults": len(res.runs[0].Env.Injected), "g": scn.G}
							if scn.GateU > 0 {
								ll["gate"] = true
							}
							if scn.Rdv > 0 {
								ll["rdv"] = scn.Rdv
								for c := range scn.Colls {
									if len(scn.Colls[c]) == 0 {
										ll["rdvempty"] = true
									}
								}
							}
							for _, inj := range res.runs[0].Env.Injected {
								if inj.Goexit {
									ll["goexit"] = true
								}
							}
							if scn.CancelK != rt.CNone {
								ll["cancel"] = scn.CancelK
							}
							var op []string
							for _, f := range other {
								op = append(op, f.Prop)
							}
							if len(op) > 0 {
								ll["other"] = op
							}
							lb, _ := json.Marshal(ll)
							logf.Write(append(lb, '\n'))
						}
						if len(mine) > 0 {
							failed = true
							writeJSON(outPath("fail-"+*flagTag+".json"), failRecord{Prop: prop, Engine: "bin", Prog: s.Name, Spec: s, Scenario: scn, Findings: mine})
							rt_.Fatalf("directive %s scenario %s\n%s", s.Name, mustJSON(scn), fmtFindings(mine))
						}
					}
				})
			}()
			if failed {
				if curPath != "" {
					os.Remove(curPath)
				}
				t.Fatalf("directive %s violates %s (see failure record)", s.Name, prop)
			}
		}
	}
	if curPath != "" {
		os.Remove(curPath)
	}
}

// hammerScenario decides whether this scenario also gets a stress run and
// returns the variant to execute: same faults and cancellation, but every
// user function returns at once and one execution at a time per goroutine.
func hammerScenario(t *rapid.T, s *rt.Spec, scn *rt.Scenario, prop string) *rt.Scenario {
	if *flagHammer <= 0 || (prop != "C05" && prop != "C06") || s.PkgState {
		return nil // (a program that writes package-level variables is never executed concurrently with itself)
	}
	faulty := scn.CancelK != rt.CNone || len(scn.Elems) > 0
	for _, o := range scn.Out {
		if o.K != rt.OOk {
			faulty = true
		}
	}
	if !faulty || uniform(t, "hammer", 8) != 0 {
		return nil
	}
	hm := *scn
	hm.Out = append([]rt.Outcome{}, scn.Out...)
	for i := range hm.Out {
		hm.Out[i].T, hm.Out[i].D = 0, 0
	}
	hm.Elems = append([]rt.ElemOutcome{}, scn.Elems...)
	for i := range hm.Elems {
		hm.Elems[i].O.T, hm.Elems[i].O.D = 0, 0
	}
	if hm.CancelK == rt.CTimer {
		hm.CancelK, hm.CancelU = rt.CInUnit, 0
	}
	hm.G, hm.GateU, hm.GateFor, hm.Rdv, hm.PFirst = 1, 0, 0, 0, 0
	return &hm
}

func hammerFindings(res *execResult, prop string) []rt.Finding {
	var fs []rt.Finding
	if res.hang != "" && prop == "C05" {
		fs = append(fs, rt.Finding{Prop: "C05", Msg: "a call of the directive never returned although every user function returns at once; the whole process is blocked:\n" + res.hang})
	}
	if res.leak != "" && prop == "C06" {
		fs = append(fs, rt.Finding{Prop: "C06", Msg: "scheduler goroutines remain blocked after all calls of the directive returned:\n" + res.leak})
	}
	return fs
}

// hammer executes one scenario calls times from 8 goroutines.
func hammer(s *rt.Spec, scn *rt.Scenario, calls int) *execResult {
	prog := rt.Lookup(s.Name)
	res := &execResult{}
	base := rt.SchedIDs()
	baseN := runtime.NumGoroutine()
	const workers = 8
	var done atomic.Int64
	var wg sync.WaitGroup
	for w := 0; w < workers; w++ {
		wg.Add(1)
		go func(w int) {
			defer wg.Done()
			for i := 0; i < calls/workers+1; i++ {
				env := rt.NewEnv(w, s, scn)
				env.Race = true
				ctx, cancel := context.WithCancel(rt.WithEnv(context.Background(), env))
				if scn.CustomCtx {
					// a hand-written context that stays live after the call (a
					// long-lived caller context): whatever still watches it is a leak
					cancel()
					mc := rt.NewManualCtx(rt.WithEnv(context.Background(), env))
					ctx = mc
					cancel = func() {}
					env.Cancel = mc.Cancel
					if scn.CancelK != rt.CNone {
						cancel = mc.Cancel
					}
				} else {
					env.Cancel = cancel
				}
				if scn.CancelK == rt.CPre {
					env.Cancel()
				}
				func() {
					defer func() { recover() }()
					prog(env, ctx)
				}()
				cancel()
				done.Add(1)
			}
		}(w)
	}
	fin := make(chan struct{})
	go func() { wg.Wait(); close(fin) }()
	last, lastAt := int64(-1), time.Now()
	for {
		select {
		case <-fin:
			leak, ok := rt.AwaitNoSched(base, 20*time.Second)
			if !ok {
				res.inconclusive = "scheduler goroutines still present after the stress run, not in a stable blocked state"
			}
			res.leak = leak
			// any kind of goroutine: thousands of calls must not leave the process
			// with many more goroutines than it had (goroutines that have
			// returned are reaped within moments: poll before judging)
			if res.leak == "" && res.inconclusive == "" {
				deadline := time.Now().Add(5 * time.Second)
				for runtime.NumGoroutine() > baseN+40 && time.Now().Before(deadline) {
					time.Sleep(20 * time.Millisecond)
				}
				if n := runtime.NumGoroutine(); n > baseN+40 {
					if d, stuck := rt.StableDump(); stuck {
						if len(d) > 6000 {
							d = d[:6000] + "\n..."
						}
						res.leak = fmt.Sprintf("%d goroutines exist after %d calls of the directive returned, %d before; all are blocked for good:\n%s", n, calls, baseN, d)
					}
				}
			}
			return res
		case <-time.After(2 * time.Second):
		}
		if n := done.Load(); n != last {
			last, lastAt = n, time.Now()
			continue
		}
		if time.Since(lastAt) > 10*time.Second {
			if d, ok := rt.HangDump(); ok {
				res.hang = d
				return res
			}
			if time.Since(lastAt) > 120*time.Second {
				res.inconclusive = "stress run made no progress for 120s but the process is not in a stable blocked state"
				return res
			}
		}
	}
}

func mustJSON(v interface{}) string {
	b, _ := json.Marshal(v)
	return string(b)
}

// subT adapts *testing.T for rapid.Check so that a failing directive is
// recorded without aborting the whole inner run through FailNow.
type subT struct {
	*testing.T
	failed *bool
}

func (s subT) Errorf(format string, args ...interface{}) { *s.failed = true; s.T.Logf(format, args...) }
func (s subT) Fatalf(format string, args ...interface{}) {
	*s.failed = true
	s.T.Logf(format, args...)
	panic("rapid check failed")
}
func (s subT) Fatal(args ...interface{}) {
	*s.failed = true
	s.T.Log(args...)
	panic("rapid check failed")
}
func (s subT) Error(args ...interface{}) { *s.failed = true; s.T.Log(args...) }
func (s subT) FailNow()                  { *s.failed = true; panic("rapid check failed") }
func (s subT) Fail()                     { *s.failed = true }
func (s subT) Failed() bool              { return *s.failed }
