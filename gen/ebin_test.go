package verifx

import (
	"bytes"
	"crypto/sha256"
	"encoding/hex"
	"encoding/json"
	"flag"
	"fmt"
	"os"
	"os/exec"
	"path/filepath"
	"regexp"
	"strings"
	"sync"
	"testing"
	"time"

	"go.uber.org/cff/verifx/rt"
	"pgregory.net/rapid"
)

var (
	flagProp   = flag.String("prop", "C02", "property id")
	flagTier   = flag.String("tier", "quick", "quick|thorough")
	flagOut    = flag.String("out", "", "directory receiving case logs and failure files")
	flagShard  = flag.Int("shard", 0, "shard number")
	flagReplay = flag.String("replay", "", "replay file")
	flagCff    = flag.String("cff", "", "path of the cff binary built from the working tree")
	flagRepo   = flag.String("repo", "/repo", "cff checkout the generated modules are built against")
	flagRtDir  = flag.String("rtdir", "rt", "directory of the rt package sources")
	flagInner  = flag.String("innerdir", "inner", "directory of the inner driver module")
	flagWork   = flag.String("workdir", "", "scratch directory for generated modules")
	flagScn    = flag.Int("scn", 40, "scenarios per directive")
	flagKeep   = flag.Bool("keepcase", false, "keep the generated module of failing cases")
	flagHammer = flag.Int("hammer", 0, "C05/C06: executions per selected early-stop scenario in the inner driver's stress phase")
)

func goEnv() []string {
	env := os.Environ()
	env = append(env, "GOFLAGS=-mod=mod", "GOPROXY=off", "GOSUMDB=off", "GOTOOLCHAIN=local")
	if *flagWork != "" {
		// cff writes a debugging copy to the temporary directory when its own
		// output does not parse: keep such files inside the scratch area
		env = append(env, "TMPDIR="+*flagWork)
	}
	return env
}

// Environment trouble: a tool failed for a reason that has nothing to do with
// its input (disk full, build cache removed under a running build, the
// toolchain's own tree unreadable, the process killed). Such a failure is
// never a verdict: the case that observed it is inconclusive.
var (
	envMu      sync.Mutex
	envTrouble string
	reEnvFail  = regexp.MustCompile(`(?m)no space left on device|cannot allocate memory|signal: killed|resource temporarily unavailable|too many open files|build cache is required|failed to initialize build cache|go-build\S*: no such file or directory|^(/usr/lib/go|/opt/veriftools/go)\S*/src/\S+: package \S+ is not in std`)
)

func noteEnvTrouble(out string) {
	if m := reEnvFail.FindString(out); m != "" {
		envMu.Lock()
		if envTrouble == "" {
			envTrouble = m
		}
		envMu.Unlock()
	}
}

// takeEnvTrouble returns and clears the environment failure seen since the last call.
func takeEnvTrouble() string {
	envMu.Lock()
	defer envMu.Unlock()
	m := envTrouble
	envTrouble = ""
	return m
}

func run(dir string, timeout time.Duration, name string, args ...string) (string, int, bool) {
	cmd := exec.Command(name, args...)
	cmd.Dir = dir
	cmd.Env = goEnv()
	var buf bytes.Buffer
	cmd.Stdout, cmd.Stderr = &buf, &buf
	if err := cmd.Start(); err != nil {
		return err.Error(), -1, false
	}
	done := make(chan error, 1)
	go func() { done <- cmd.Wait() }()
	select {
	case err := <-done:
		code := 0
		if err != nil {
			code = -1
			if ee, ok := err.(*exec.ExitError); ok {
				code = ee.ExitCode()
			}
			noteEnvTrouble(buf.String())
		}
		return buf.String(), code, false
	case <-time.After(timeout):
		cmd.Process.Kill()
		<-done
		return buf.String(), -1, true
	}
}

// optsFor tunes the program generator to a property.
func optsFor(prop string) GenOpts {
	o := DefaultOpts()
	switch prop {
	case "C02":
		o.PParallel, o.PWrap, o.PEmitters, o.MaxTasks = 0, 0.1, 0.1, 9
	case "C10":
		o.PParallel, o.PCOE = 1, 0.25
	case "C08":
		o.PParallel, o.PCOE, o.PEnd = 1, 1, 0
	case "C11":
		o.PParallel, o.PPred, o.PFallback = 0, 0.6, 0.5
	case "C15":
		o.PWrap, o.PBare, o.PShadow = 0.6, 1, 0.3 // not wrapped => bare identifiers (late-read / capture detection)
	case "C18":
		o.PEmitters, o.PInstrument, o.PInstrD = 1, 0.7, 0.75
	case "C04":
		o.PPred, o.PEnd, o.PFallback = 0.4, 0.6, 0.3
	case "C07":
		o.PCOE = 0.15
	case "C12":
		o.PEmitters = 0.6               // emitter state is shared between concurrent executions
		o.PWrap, o.PFallback = 0.5, 0.3 // wrapped argument expressions read what the task bodies write
	case "C09":
	case "C03":
		o.Wide, o.PParallel = true, 0.6
	case "C01":
		o.PPred, o.PEnd = 0.4, 0.7
	case "C20":
		o.ModSubset, o.PParallel, o.PWrap, o.PEmitters = true, 0, 0, 0
		o.PBig = 0.25
		o.Spellings = []string{"lit", "lit", "top", "funcvar", "method", "callret"}
	}
	return o
}

// fileName draws the name of the fi-th source file: mostly fN.go, sometimes
// with characters that identifiers may not hold or that tools tend to drop
// when they derive identifiers from file names.
func fileName(t *rapid.T, fi int) string {
	switch uniform(t, "fname", 8) {
	case 0:
		return fmt.Sprintf("f%d-a.go", fi+1)
	case 1:
		return fmt.Sprintf("f%d.b.go", fi+1)
	case 2:
		return fmt.Sprintf("f%d_c.go", fi+1)
	}
	return fmt.Sprintf("f%d.go", fi+1)
}

// GenPackage draws a package of several files with several directives each.
func GenPackage(t *rapid.T, o GenOpts, nfiles, perFile int) *PackageSpec {
	p := &PackageSpec{}
	n := 0
	for fi := 0; fi < nfiles; fi++ {
		f := &FileSpec{Name: fileName(t, fi), Header: "//go:build cff\n", Idx: fi, Decor: uniform(t, "decor", 8)}
		switch uniform(t, "ctxalias", 5) {
		case 0:
			f.CtxAlias = "ctx2"
		}
		switch uniform(t, "cffalias", 6) {
		case 0:
			f.CffAlias = "c"
		}
		switch uniform(t, "layout", 8) {
		case 0:
			f.Layout = 1
		case 1:
			f.Layout = 2
		case 2:
			f.Layout = 4
		case 3:
			f.Layout = 1 + uniform(t, "layoutbits", 15)
		case 4:
			f.Layout = 8
		case 7:
			f.Layout = 64 + uniform(t, "layoutbits64", 64) // "/*" inside a line comment above the constraint, plus any other layout feature
		case 6:
			f.Layout = 32 + uniform(t, "layoutbits32", 32) // a byte order mark, plus any other layout feature
		case 5:
			f.Layout = 16 + uniform(t, "layoutbits16", 8) // //line directives, possibly with CRLF / no final newline / go:generate
		}
		switch uniform(t, "oddimp", 8) {
		case 0:
			f.OddImp = 1
		case 1:
			f.OddImp = 2
		case 2:
			f.OddImp = 3
		}
		switch uniform(t, "timeimp", 6) {
		case 0:
			f.TimeImp = "plain"
		case 1:
			f.TimeImp = "alias"
		case 2:
			f.TimeImp = "collide"
		}
		k := 1 + uniform(t, "nprogs", perFile)
		for i := 0; i < k; i++ {
			f.Progs = append(f.Progs, GenDirective(t, fmt.Sprintf("Prog%d", n), o))
			n++
		}
		p.Files = append(p.Files, f)
	}
	return p
}

func specHash(s *rt.Spec) string {
	c := *s
	c.Name, c.File = "", ""
	b, _ := json.Marshal(&c)
	h := sha256.Sum256(b)
	return hex.EncodeToString(h[:8])
}

// nonTrivialSpec implements each property's stated rule at the program level.
func nonTrivialSpec(prop string, s *rt.Spec) bool {
	nonLit, multi, ext2, preds, fb, instr := false, false, false, 0, 0, 0
	for _, t := range s.Tasks {
		if t.Sp != "lit" && t.Sp != "" {
			nonLit = true
		}
		if len(t.Out) >= 2 {
			multi = true
		}
		for _, x := range append(append([]rt.TypeRef{}, t.In...), t.Out...) {
			if x.K == "U" || x.K == "V" {
				ext2 = true
			}
		}
		if t.Pred != nil {
			preds++
		}
		if t.Fallback {
			fb++
		}
		if t.Instrument {
			instr++
		}
	}
	for _, t := range s.PTasks {
		if t.Instrument {
			instr++
		}
	}
	ends := 0
	for _, sl := range s.Slices {
		if sl.End != nil {
			ends++
		}
	}
	for _, mp := range s.Maps {
		if mp.End != nil {
			ends++
		}
	}
	colls := len(s.Slices) + len(s.Maps)
	switch prop {
	case "C02":
		return s.Kind == "flow" && len(s.Tasks) >= 3 && (nonLit || multi || ext2)
	case "C04":
		return preds+ends+colls > 0 || s.Units >= 2
	case "C10":
		return s.Kind == "parallel" && (ends > 0 || colls > 0)
	case "C08":
		return s.Kind == "parallel" && s.COE != "" && s.Units >= 3
	case "C11":
		return preds+fb > 0
	case "C15":
		return (s.Wrap && s.NArgs >= 4) || s.Bare || s.Shadow
	case "C18":
		return s.Emitters > 0 && (instr >= 2 || s.EmitNest || s.EmitShared)
	case "C07", "C12", "C01", "C09", "C05", "C06":
		return s.Units >= 2
	case "C03":
		return s.Conc != "" && s.Units >= 3
	}
	return true
}

func specLabels(s *rt.Spec) []string {
	l := []string{"kind:" + s.Kind}
	if s.Wrap {
		l = append(l, "wrap")
	}
	if s.Shadow {
		l = append(l, "shadow")
	}
	if s.Bare {
		l = append(l, "bare-identifiers")
	}
	if s.Encl != "" {
		l = append(l, "encl:"+s.Encl)
	}
	if s.Stmt != "" {
		l = append(l, "stmt:"+s.Stmt)
	}
	for _, ts := range s.Tasks {
		if ts.Pred != nil && ts.Pred.NamedBool {
			l = append(l, "pred:declared-bool-result(free-verdict)")
		}
	}
	if s.Paren {
		l = append(l, "paren")
	}
	if s.Extra > 0 {
		l = append(l, "extra-directives")
	}
	if s.Emitters > 0 {
		l = append(l, "emitters")
	}
	if s.EmitNest {
		l = append(l, "emitnest")
	}
	if s.EmitProcBase {
		l = append(l, "emitters:process-wide-base-stack")
	}
	if s.EmitShared {
		l = append(l, "emitshared")
	}
	if s.InstrumentD {
		l = append(l, "instrumentD")
	}
	if s.AutoInstr {
		l = append(l, "auto-instrument")
	}
	if s.COE != "" {
		l = append(l, "coe:"+s.COE)
	}
	if s.Conc != "" {
		l = append(l, "conc:"+strings.SplitN(s.Conc, ":", 2)[0])
	}
	sp := map[string]bool{}
	for _, t := range s.Tasks {
		sp[t.Sp] = true
		if t.Pred != nil {
			l = append(l, "pred")
		}
		if t.Fallback {
			l = append(l, "fallback")
		}
		if len(t.Out) >= 2 {
			l = append(l, "multiout")
		}
		if t.Invoke {
			l = append(l, "invoke")
		}
	}
	for _, t := range s.PTasks {
		sp[t.Sp] = true
		if t.Group >= 0 {
			l = append(l, "tasks-group")
		}
	}
	for k := range sp {
		l = append(l, "sp:"+k)
	}
	for _, sl := range s.Slices {
		l = append(l, "slice")
		if sl.End != nil {
			l = append(l, "sliceend")
		}
		if !sl.Index {
			l = append(l, "slice-noindex")
		}
		if sl.Boxed && !sl.Named {
			l = append(l, "coll:struct-field")
		}
	}
	for _, mp := range s.Maps {
		l = append(l, "map")
		if mp.KeyK != "" {
			l = append(l, "mapkey:"+mp.KeyK)
		}
		if mp.Named {
			l = append(l, "map:named-type")
		}
		if mp.End != nil {
			l = append(l, "mapend")
		}
	}
	// dedupe
	seen := map[string]bool{}
	var out []string
	for _, x := range l {
		if !seen[x] {
			seen[x] = true
			out = append(out, x)
		}
	}
	return out
}

// binFail is the failure record of the outer loop.
type binFail struct {
	Prop     string            `json:"property"`
	Engine   string            `json:"engine"`
	Package  *PackageSpec      `json:"package"`
	Stage    string            `json:"stage"` // cff | build | run
	Findings []rt.Finding      `json:"findings"`
	Inner    json.RawMessage   `json:"inner,omitempty"` // the inner driver's failure record (program, scenario)
	Sources  map[string]string `json:"sources,omitempty"`
	Output   string            `json:"output,omitempty"`
}

type caseOutcome struct {
	fail         *binFail
	inconclusive string
	scenarios    map[string]int // per program
	scnClass     map[string]int // "<prog>/scn:<class>" -> count
	otherProps   map[string]int
}

func tailStr(s string, n int) string {
	if len(s) > n {
		return "..." + s[len(s)-n:]
	}
	return s
}

// runCase generates, builds and runs one package.
func runCase(p *PackageSpec, prop string, scn int, race bool, tag string, replayInner string) *caseOutcome {
	out := &caseOutcome{scenarios: map[string]int{}, otherProps: map[string]int{}, scnClass: map[string]int{}}
	work := *flagWork
	if work == "" {
		work = os.TempDir()
	}
	dir, err := os.MkdirTemp(work, "case-")
	if err != nil {
		out.inconclusive = err.Error()
		return out
	}
	keep := false
	defer func() {
		if !keep {
			os.RemoveAll(dir)
		}
	}()
	mod := filepath.Join(dir, "vcase")
	if err := WriteModule(mod, p, *flagRtDir, *flagRepo); err != nil {
		out.inconclusive = err.Error()
		return out
	}
	sources := func() map[string]string {
		m := map[string]string{}
		for _, f := range p.Files {
			for _, n := range []string{f.Name, strings.TrimSuffix(f.Name, ".go") + "_gen.go"} {
				if b, err := os.ReadFile(filepath.Join(mod, "p", n)); err == nil {
					m[n] = string(b)
				}
			}
		}
		return m
	}
	fail := func(stage, prop, msg, output string) {
		out.fail = &binFail{Prop: *flagProp, Engine: "bin", Package: p, Stage: stage, Findings: []rt.Finding{{Prop: prop, Msg: msg}}, Sources: sources(), Output: tailStr(output, 6000)}
		keep = *flagKeep
	}
	args := []string{}
	if p.AutoInstr {
		args = append(args, "-auto-instrument")
	}
	if p.SrcMap {
		args = append(args, "-genmode=source-map")
	}
	args = append(args, "vcase/p")
	o, code, to := run(mod, 120*time.Second, *flagCff, args...)
	switch {
	case to:
		out.inconclusive = "cff timed out"
		return out
	case code != 0 && strings.Contains(o, "load packages:") && !strings.Contains(o, "panic:"):
		// the generated INPUT does not type-check: a generator slip, never a violation
		out.inconclusive = "discarded_invalid_input: " + tailStr(o, 600)
		return out
	case code != 0:
		if strings.Contains(o, "panic:") || strings.Contains(o, "goroutine ") || code == 2 {
			fail("cff", "C13", "the cff tool crashed on a type-correct package", o)
		} else {
			fail("cff", "C14", "cff rejected a package of well-formed directives", o)
		}
		return out
	}
	if p.Twin {
		o, code, to = run(mod, 120*time.Second, *flagCff, "-genmode=modifier", "vcase/pm")
		switch {
		case to:
			out.inconclusive = "cff timed out"
			return out
		case code != 0 && crashed(o, code):
			fail("cff", "C13", "the cff tool crashed in modifier mode", o)
			return out
		case code != 0:
			fail("cff", "C20", "modifier mode rejected a flow of the supported subset that base mode accepts", o)
			return out
		}
	}
	// inner driver
	in := filepath.Join(dir, "inner")
	os.MkdirAll(in, 0o755)
	for _, n := range []string{"go.mod", "go.sum", "inner_test.go"} {
		b, err := os.ReadFile(filepath.Join(*flagInner, n))
		if err != nil {
			out.inconclusive = err.Error()
			return out
		}
		if n == "go.mod" {
			b = bytes.ReplaceAll(b, []byte("=> /repo"), []byte("=> "+*flagRepo))
		}
		os.WriteFile(filepath.Join(in, n), b, 0o644)
	}
	if p.Twin {
		os.WriteFile(filepath.Join(in, "twin_test.go"), []byte("package inner\n\nimport _ \"vcase/pm\"\n"), 0o644)
	}
	// the program is built with a tag that cff did not see: constants declared
	// per build configuration (bc_on.go / bc_off.go) have other values now
	// than when the code was generated
	tags := "verifb"
	if *flagProp == "C04" {
		tags = "verifb,verif" // the scheduler's hook points (panic-first scenario)
	}
	bargs := []string{"test", "-c", "-tags", tags, "-o", filepath.Join(dir, "inner.test")}
	if race {
		bargs = append(bargs, "-race")
	}
	bargs = append(bargs, ".")
	o, code, to = run(in, 300*time.Second, "go", bargs...)
	if to {
		out.inconclusive = "build timed out"
		return out
	}
	if code != 0 {
		if strings.Contains(o, "vcase/pm") {
			fail("build", "C20", "modifier-mode output does not compile", o)
		} else if strings.Contains(o, "vcase/p") || strings.Contains(o, "_gen.go") {
			fail("build", "C13", "cff succeeded but its output does not compile", o)
			if prop == "C15" && replayInner != "renamed" {
				// Metamorphic check for the capture clause of C15: rename the
				// user's locals (no bare / shadow-named identifiers, everything
				// else identical). If the renamed package compiles, the names
				// introduced by generated code captured the user's names.
				q := renamed(p)
				if q != nil {
					if oc2 := runCase(q, prop, 1, false, tag+"r", "renamed"); oc2.fail == nil && oc2.inconclusive == "" {
						out.fail.Findings = append(out.fail.Findings, rt.Finding{Prop: "C15", Msg: "generated code does not compile when the user's locals are named like identifiers the generated code introduces (" + strings.Join(shadowNames[:6], ", ") + ", ...), but the same programs compile once those locals are renamed: generated identifiers capture or shadow names used in argument expressions"})
					}
				}
			}
		} else {
			out.inconclusive = "inner driver build failed: " + tailStr(o, 1500)
		}
		return out
	}
	if replayInner == "renamed" {
		return out // build-only probe of the C15 rename check
	}
	outDir := filepath.Join(dir, "out")
	os.MkdirAll(outDir, 0o755)
	rargs := []string{"-test.run", "^TestInner$", "-test.count=1", "-test.timeout=900s", "-prop=" + prop,
		"-specs=" + filepath.Join(mod, "specs.json"), "-out=" + outDir, fmt.Sprintf("-scn=%d", scn), "-tag=" + tag,
		"-rapid.nofailfile", fmt.Sprintf("-rapid.checks=%d", scn), "-rapid.shrinktime=15s",
		fmt.Sprintf("-rapid.seed=%d", rapidSeedFor(p, tag))}
	if *flagHammer > 0 {
		rargs = append(rargs, fmt.Sprintf("-hammer=%d", *flagHammer))
	}
	if replayInner != "" {
		rargs = append(rargs, "-replay="+replayInner)
	}
	cmd := exec.Command(filepath.Join(dir, "inner.test"), rargs...)
	cmd.Dir = in
	cmd.Env = append(goEnv(), "GORACE=halt_on_error=1")
	if prop == "C03" {
		// the default limit is max(GOMAXPROCS, 4): run under few processors too,
		// so that more tasks than the default limit can be runnable at once
		gm := []string{"2", "3", "16", "1"}[rapidSeedFor(p, tag)%4]
		cmd.Env = append(cmd.Env, "GOMAXPROCS="+gm)
	} else if gm := []string{"", "", "1", "2", "4"}[rapidSeedFor(p, tag)%5]; gm != "" && os.Getenv("GOMAXPROCS") == "" {
		// schedule diversity: some packages run under few processors
		cmd.Env = append(cmd.Env, "GOMAXPROCS="+gm)
	}
	var buf bytes.Buffer
	cmd.Stdout, cmd.Stderr = &buf, &buf
	err = cmd.Run()
	o = buf.String()
	// scenario log
	if b, err := os.ReadFile(filepath.Join(outDir, "scn-"+tag+".jsonl")); err == nil {
		for _, line := range strings.Split(string(b), "\n") {
			if line == "" {
				continue
			}
			var ll struct {
				Prog   string   `json:"prog"`
				Other  []string `json:"other"`
				Gate   bool     `json:"gate"`
				Rdv    int      `json:"rdv"`
				RdvE   bool     `json:"rdvempty"`
				Goexit bool     `json:"goexit"`
				Faults int      `json:"faults"`
				Cancel int      `json:"cancel"`
				G      int      `json:"g"`
			}
			if json.Unmarshal([]byte(line), &ll) == nil {
				out.scenarios[ll.Prog]++
				if ll.Gate {
					out.scnClass[ll.Prog+"/scn:gate"]++
				}
				if ll.Rdv > 0 {
					out.scnClass[ll.Prog+"/scn:rendezvous"]++
				}
				if ll.RdvE {
					out.scnClass[ll.Prog+"/scn:rendezvous-empty-collection"]++
				}
				if ll.Goexit {
					out.scnClass[ll.Prog+"/scn:goexit"]++
				}
				if ll.Faults > 0 {
					out.scnClass[ll.Prog+"/scn:faults"]++
				}
				if ll.Faults >= 2 {
					out.scnClass[ll.Prog+"/scn:faults>=2"]++
				}
				if ll.Cancel > 0 {
					out.scnClass[ll.Prog+"/scn:cancel"]++
				}
				if ll.G > 1 {
					out.scnClass[ll.Prog+"/scn:concurrent-executions"]++
				}
				for _, x := range ll.Other {
					out.otherProps[x]++
				}
			}
		}
	}
	if err == nil {
		return out
	}
	if b, e2 := os.ReadFile(filepath.Join(outDir, "fail-"+tag+".json")); e2 == nil {
		var fr struct {
			Findings []rt.Finding `json:"findings"`
		}
		json.Unmarshal(b, &fr)
		out.fail = &binFail{Prop: *flagProp, Engine: "bin", Package: p, Stage: "run", Findings: fr.Findings, Inner: b, Sources: sources(), Output: tailStr(stripDraws(o), 3000)}
		keep = *flagKeep
		return out
	}
	if b, e2 := os.ReadFile(filepath.Join(outDir, "cur-"+tag+".json")); e2 == nil {
		switch {
		case strings.Contains(o, "DATA RACE"):
			fail("run", "C12", "the Go race detector reported a data race in generated code or the scheduler", stripDraws(o))
			out.fail.Inner = b
		case strings.Contains(o, "panic:") || strings.Contains(o, "fatal error:"):
			who := "C04"
			var cur struct {
				Findings []rt.Finding `json:"findings"`
			}
			if json.Unmarshal(b, &cur) == nil && len(cur.Findings) > 0 && cur.Findings[0].Prop == "C20" {
				who = "C20" // died inside the modifier-mode twin
			}
			fail("run", who, "the process running generated code died: a panic escaped the directive", stripDraws(o))
			out.fail.Inner = b
		default:
			out.inconclusive = "inner driver exited abnormally: " + tailStr(stripDraws(o), 1500)
		}
		return out
	}
	out.inconclusive = "inner driver failed without a failure record: " + tailStr(stripDraws(o), 1500)
	return out
}

func stripDraws(s string) string {
	var sb strings.Builder
	for _, l := range strings.Split(s, "\n") {
		if !strings.Contains(l, "[rapid] draw") {
			sb.WriteString(l + "\n")
		}
	}
	return sb.String()
}

func rapidSeedFor(p *PackageSpec, tag string) uint64 {
	h := sha256.Sum256([]byte(p.JSON() + tag))
	v := uint64(0)
	for _, b := range h[:7] {
		v = v<<8 | uint64(b)
	}
	return v | 1
}

type binLogLine struct {
	H      string           `json:"h"`
	NT     bool             `json:"nt"`
	N      int              `json:"n"`
	Labels []string         `json:"labels,omitempty"`
	Sample json.RawMessage  `json:"sample,omitempty"`
	Other  []string         `json:"other,omitempty"`
	Extra  map[string]int64 `json:"extra,omitempty"`
}

// TestBin is the outer loop of engine E-BIN.
func TestBin(t *testing.T) {
	if *flagCff == "" {
		t.Skip("-cff not given")
	}
	prop := *flagProp
	race := prop == "C12"
	var logf *os.File
	if *flagOut != "" {
		logf, _ = os.Create(filepath.Join(*flagOut, fmt.Sprintf("cases-%s-bin-%d.jsonl", prop, *flagShard)))
		defer logf.Close()
	}
	samples := 0
	writeFail := func(f *binFail) {
		if *flagOut == "" {
			return
		}
		b, _ := json.MarshalIndent(f, "", " ")
		os.WriteFile(filepath.Join(*flagOut, fmt.Sprintf("fail-%s-bin-%d.json", prop, *flagShard)), b, 0o644)
	}
	if *flagReplay != "" {
		b, err := os.ReadFile(*flagReplay)
		if err != nil {
			t.Fatal(err)
		}
		var f binFail
		if err := json.Unmarshal(b, &f); err != nil || f.Package == nil {
			t.Fatalf("bad replay file: %v", err)
		}
		inner := ""
		if len(f.Inner) > 0 {
			inner = filepath.Join(t.TempDir(), "inner-replay.json")
			os.WriteFile(inner, f.Inner, 0o644)
		}
		oc := runCase(f.Package, prop, *flagScn, race, "r", inner)
		if oc.inconclusive != "" {
			t.Skip(oc.inconclusive)
		}
		if oc.fail != nil {
			for _, fd := range oc.fail.Findings {
				if fd.Prop == prop {
					t.Fatalf("replay reproduces: %s", fd.Msg)
				}
			}
		}
		return
	}
	nfiles, perFile := 3, 8
	o := optsFor(prop)
	rapid.Check(t, func(rt_ *rapid.T) {
		p := GenPackage(rt_, o, nfiles, perFile)
		p.Twin = prop == "C20"
		if !p.Twin && uniform(rt_, "srcmap", 5) == 0 {
			p.SrcMap = true
		}
		if prop != "C20" && (uniform(rt_, "autoinstr", 4) == 0 || os.Getenv("FORCE_AUTO") != "") {
			p.AutoInstr = true
		}
		oc := runCase(p, prop, *flagScn, race, fmt.Sprint(*flagShard), "")
		if m := takeEnvTrouble(); m != "" && oc.inconclusive == "" {
			oc.inconclusive = "a tool failed for an environmental reason (" + m + "): no verdict"
		}
		if oc.inconclusive != "" {
			if *flagOut != "" {
				f, err := os.OpenFile(filepath.Join(*flagOut, fmt.Sprintf("inconclusive-%s-%d.txt", prop, *flagShard)), os.O_APPEND|os.O_CREATE|os.O_WRONLY, 0o644)
				if err == nil {
					f.WriteString(strings.ReplaceAll(oc.inconclusive, "\n", " | ") + "\n")
					f.Close()
				}
			}
			rt_.Skip(oc.inconclusive)
		}
		mineFail := false
		var others []string
		if oc.fail != nil {
			for _, fd := range oc.fail.Findings {
				if fd.Prop == prop {
					mineFail = true
				} else {
					others = append(others, fd.Prop)
				}
			}
		}
		for k := range oc.otherProps {
			others = append(others, k)
		}
		if logf != nil {
			for _, s := range p.Specs() {
				ll := binLogLine{H: specHash(s), NT: nonTrivialSpec(prop, s), N: oc.scenarios[s.Name], Labels: specLabels(s), Other: others}
				if p.SrcMap {
					ll.Labels = append(ll.Labels, "genmode:source-map")
				}
				for k, v := range oc.scnClass {
					if strings.HasPrefix(k, s.Name+"/") {
						if ll.Extra == nil {
							ll.Extra = map[string]int64{}
						}
						ll.Extra[strings.TrimPrefix(k, s.Name+"/")] = int64(v)
					}
				}
				if ll.NT && samples < 2 {
					samples++
					ll.Sample = json.RawMessage(s.JSON())
				}
				b, _ := json.Marshal(ll)
				logf.Write(append(b, '\n'))
				others = nil
			}
		}
		if mineFail {
			writeFail(oc.fail)
			rt_.Fatalf("package fails %s at stage %s: %s\n%s", prop, oc.fail.Stage, oc.fail.Findings[0].Msg, tailStr(oc.fail.Output, 1500))
		}
	})
}

// renamed returns a copy of the package without bare / shadow-named locals
// (nil if the package has none).
func renamed(p *PackageSpec) *PackageSpec {
	b, _ := json.Marshal(p)
	var q PackageSpec
	if json.Unmarshal(b, &q) != nil {
		return nil
	}
	changed := false
	for _, s := range q.Specs() {
		if s.Bare || s.Shadow {
			s.Bare, s.Shadow = false, false
			changed = true
		}
	}
	if !changed {
		return nil
	}
	return &q
}
