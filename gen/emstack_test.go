package verifx

import (
	"context"
	"crypto/sha256"
	"encoding/hex"
	"encoding/json"
	"errors"
	"fmt"
	"os"
	"path/filepath"
	"sort"
	"strings"
	"testing"
	"time"

	"go.uber.org/cff"
	"pgregory.net/rapid"
)

// TestEmStack decides the last clause of C18 at the level of the runtime
// library: "each emitter combined with EmitterStack, however nested, receives
// exactly the events it would receive alone".
//
// A case is (i) a construction history: leaves (recording emitters, the no-op
// emitter), stacks built from literal arguments, from slices spread with
// `...` (slices that share a backing array with spare capacity, as Go code
// that appends to a common base does), stacks of stacks, and writes to those
// slices *after* stacks were built from them; (ii) an event script: Init calls
// and events with identifiable arguments (context, error, panic value,
// duration, info pointers, scheduler state) sent to one of the built emitters.
//
// Oracle = reference model: the emitter built by step k denotes a fixed
// multiset of leaves, determined when it was built; an event sent to it must be
// recorded by every leaf exactly multiplicity times, with the very same
// arguments, in script order, and by no other leaf.
type emNode struct {
	Kind  string `json:"kind"`            // leaf | nop | lit | spread
	Args  []int  `json:"args,omitempty"`  // node indices (lit) or base elements followed by extras (spread)
	Base  int    `json:"base,omitempty"`  // spread: which shared base slice
	Extra int    `json:"extra,omitempty"` // spread: node appended to the base before spreading (-1: none)
}

type emStep struct {
	Op   string  `json:"op"`             // build | clobber | send
	Node *emNode `json:"node,omitempty"` // build
	Base int     `json:"base,omitempty"` // clobber: base slice
	Pos  int     `json:"pos,omitempty"`  // clobber: index in the backing array
	With int     `json:"with,omitempty"` // clobber: node written there
	To   int     `json:"to,omitempty"`   // send: target node
	Ev   string  `json:"ev,omitempty"`   // send: event kind
	Arg  int     `json:"arg,omitempty"`  // send: argument selector
}

type emCase struct {
	Leaves int      `json:"leaves"`
	Bases  [][]int  `json:"bases"` // initial contents (node indices; only leaves) of the shared base slices, cap = len+3
	Steps  []emStep `json:"steps"`
}

type emRecord struct {
	leaf int
	sub  string // which sub-emitter ("flow#3") the event arrived on
	ev   string
	ctx  context.Context
	err  error
	pv   interface{}
	d    time.Duration
	info interface{}
	st   cff.SchedulerState
}

type emRecorder struct {
	id   int
	log  *[]emRecord
	subs int
}

type emSub struct {
	r    *emRecorder
	name string
}

func (r *emRecorder) add(rec emRecord) { rec.leaf = r.id; *r.log = append(*r.log, rec) }
func (r *emRecorder) newSub(kind string, info interface{}) emSub {
	r.subs++
	s := emSub{r, fmt.Sprintf("%s#%d", kind, r.subs)}
	r.add(emRecord{sub: s.name, ev: kind + "Init", info: info})
	return s
}
func (r *emRecorder) TaskInit(t *cff.TaskInfo, d *cff.DirectiveInfo) cff.TaskEmitter {
	return r.newSub("Task", [2]interface{}{t, d})
}
func (r *emRecorder) FlowInit(f *cff.FlowInfo) cff.FlowEmitter { return r.newSub("Flow", f) }
func (r *emRecorder) ParallelInit(p *cff.ParallelInfo) cff.ParallelEmitter {
	return r.newSub("Parallel", p)
}
func (r *emRecorder) SchedulerInit(s *cff.SchedulerInfo) cff.SchedulerEmitter {
	return r.newSub("Scheduler", s)
}

func (s emSub) TaskSuccess(c context.Context) {
	s.r.add(emRecord{sub: s.name, ev: "TaskSuccess", ctx: c})
}
func (s emSub) TaskError(c context.Context, e error) {
	s.r.add(emRecord{sub: s.name, ev: "TaskError", ctx: c, err: e})
}
func (s emSub) TaskErrorRecovered(c context.Context, e error) {
	s.r.add(emRecord{sub: s.name, ev: "TaskErrorRecovered", ctx: c, err: e})
}
func (s emSub) TaskSkipped(c context.Context, e error) {
	s.r.add(emRecord{sub: s.name, ev: "TaskSkipped", ctx: c, err: e})
}
func (s emSub) TaskPanic(c context.Context, pv interface{}) {
	s.r.add(emRecord{sub: s.name, ev: "TaskPanic", ctx: c, pv: pv})
}
func (s emSub) TaskPanicRecovered(c context.Context, pv interface{}) {
	s.r.add(emRecord{sub: s.name, ev: "TaskPanicRecovered", ctx: c, pv: pv})
}
func (s emSub) TaskDone(c context.Context, d time.Duration) {
	s.r.add(emRecord{sub: s.name, ev: "TaskDone", ctx: c, d: d})
}
func (s emSub) FlowSuccess(c context.Context) {
	s.r.add(emRecord{sub: s.name, ev: "FlowSuccess", ctx: c})
}
func (s emSub) FlowError(c context.Context, e error) {
	s.r.add(emRecord{sub: s.name, ev: "FlowError", ctx: c, err: e})
}
func (s emSub) FlowDone(c context.Context, d time.Duration) {
	s.r.add(emRecord{sub: s.name, ev: "FlowDone", ctx: c, d: d})
}
func (s emSub) ParallelSuccess(c context.Context) {
	s.r.add(emRecord{sub: s.name, ev: "ParallelSuccess", ctx: c})
}
func (s emSub) ParallelError(c context.Context, e error) {
	s.r.add(emRecord{sub: s.name, ev: "ParallelError", ctx: c, err: e})
}
func (s emSub) ParallelDone(c context.Context, d time.Duration) {
	s.r.add(emRecord{sub: s.name, ev: "ParallelDone", ctx: c, d: d})
}
func (s emSub) EmitScheduler(st cff.SchedulerState) {
	s.r.add(emRecord{sub: s.name, ev: "EmitScheduler", st: st})
}

var emEvents = []string{
	"FlowInit", "ParallelInit", "TaskInit", "SchedulerInit",
	"FlowSuccess", "FlowError", "FlowDone",
	"ParallelSuccess", "ParallelError", "ParallelDone",
	"TaskSuccess", "TaskError", "TaskErrorRecovered", "TaskSkipped", "TaskPanic", "TaskPanicRecovered", "TaskDone",
	"EmitScheduler",
}

func genEmCase(t *rapid.T) *emCase {
	c := &emCase{Leaves: rapid.SampledFrom([]int{1, 2, 3, 3, 4, 5}).Draw(t, "leaves")}
	nodes := c.Leaves + 1 // leaves, then one nop node
	nb := rapid.IntRange(0, 2).Draw(t, "bases")
	for b := 0; b < nb; b++ {
		n := rapid.IntRange(0, 3).Draw(t, "baselen")
		var base []int
		for i := 0; i < n; i++ {
			base = append(base, rapid.IntRange(0, c.Leaves).Draw(t, "baseelem"))
		}
		c.Bases = append(c.Bases, base)
	}
	ns := rapid.IntRange(1, 24).Draw(t, "steps")
	for s := 0; s < ns; s++ {
		k := rapid.IntRange(0, 9).Draw(t, "op")
		switch {
		case k <= 2: // build
			n := &emNode{}
			if nb > 0 && rapid.IntRange(0, 1).Draw(t, "spread") == 1 {
				n.Kind = "spread"
				n.Base = rapid.IntRange(0, nb-1).Draw(t, "base")
				n.Extra = rapid.IntRange(-1, nodes-1).Draw(t, "extra")
			} else {
				n.Kind = "lit"
				na := rapid.SampledFrom([]int{0, 1, 2, 2, 2, 3, 3, 4, 5}).Draw(t, "nargs")
				for i := 0; i < na; i++ {
					n.Args = append(n.Args, rapid.IntRange(0, nodes-1).Draw(t, "arg"))
				}
			}
			c.Steps = append(c.Steps, emStep{Op: "build", Node: n})
			nodes++
		case k == 3 && nb > 0: // clobber the backing array of a base slice
			c.Steps = append(c.Steps, emStep{Op: "clobber", Base: rapid.IntRange(0, nb-1).Draw(t, "base"),
				Pos: rapid.IntRange(0, 5).Draw(t, "pos"), With: rapid.IntRange(0, c.Leaves).Draw(t, "with")})
		default:
			to := rapid.IntRange(0, nodes-1).Draw(t, "to")
			if nodes > c.Leaves+1 && rapid.IntRange(0, 3).Draw(t, "tobuilt") > 0 {
				to = rapid.IntRange(c.Leaves+1, nodes-1).Draw(t, "to2")
			}
			c.Steps = append(c.Steps, emStep{Op: "send", To: to,
				Ev: rapid.SampledFrom(emEvents).Draw(t, "ev"), Arg: rapid.IntRange(0, 3).Draw(t, "evarg")})
		}
	}
	return c
}

// expected event of the model
type emWant struct {
	leaf int
	sub  string
	rec  emRecord
}

type emFinding struct {
	Prop string `json:"prop"`
	Msg  string `json:"msg"`
}

func runEmCase(c *emCase) (fs []emFinding, labels []string) {
	lab := map[string]bool{}
	var log []emRecord
	leaves := make([]*emRecorder, c.Leaves)
	var nodes []cff.Emitter  // real emitters
	var denote []map[int]int // model: leaf -> multiplicity
	for i := range leaves {
		leaves[i] = &emRecorder{id: i, log: &log}
		nodes = append(nodes, leaves[i])
		denote = append(denote, map[int]int{i: 1})
	}
	nodes = append(nodes, cff.NopEmitter())
	denote = append(denote, map[int]int{})
	// shared base slices with spare capacity; the model keeps node indices
	bases := make([][]cff.Emitter, len(c.Bases))
	for b, els := range c.Bases {
		bases[b] = make([]cff.Emitter, 0, len(els)+3)
		for _, e := range els {
			bases[b] = append(bases[b], nodes[e])
		}
	}
	baseModel := make([][]int, len(c.Bases))
	for b := range c.Bases {
		baseModel[b] = append([]int{}, c.Bases[b]...)
	}
	errs := []error{errors.New("e0"), errors.New("e1"), fmt.Errorf("wrapped: %w", context.Canceled), nil}
	pvs := []interface{}{"pv0", errors.New("pv1"), &struct{ x int }{7}, 42}
	type ctxKey struct{}
	ctxs := []context.Context{context.Background(), context.WithValue(context.Background(), ctxKey{}, 1),
		context.WithValue(context.Background(), ctxKey{}, 2), context.TODO()}
	durs := []time.Duration{0, 1, time.Second, -5}
	finfo := []*cff.FlowInfo{{Name: "f0"}, {Name: "f1", File: "x.go", Line: 3}, {Name: ""}, {Name: "f0"}}
	pinfo := []*cff.ParallelInfo{{Name: "p0"}, {Name: "p1"}, {Name: ""}, {Name: "p0"}}
	tinfo := []*cff.TaskInfo{{Name: "t0"}, {Name: "t1"}, {Name: ""}, {Name: "t0"}}
	dinfo := []*cff.DirectiveInfo{{Name: "d0", Directive: cff.FlowDirective}, {Name: "d1", Directive: cff.ParallelDirective}, {Name: ""}, {Name: "d0"}}
	sinfo := []*cff.SchedulerInfo{{Name: "s0"}, {Name: "s1", Directive: cff.ParallelDirective}, {Name: ""}, {Name: "s0"}}
	states := []cff.SchedulerState{{}, {Pending: 3, Ready: 1, Waiting: 1, IdleWorkers: 2, Concurrency: 3}, {Pending: 1}, {Concurrency: 9}}

	// sub-emitters obtained from Init calls on node n: real object + the model's denotation at Init time
	type subEm struct {
		kind string
		real interface{}
		den  map[int]int
		ids  map[int][]string // leaf -> names of the sub-emitters the model expects (one per multiplicity)
	}
	subs := map[int][]*subEm{}
	modelSubs := make([]int, c.Leaves)
	var want []emWant

	for si, st := range c.Steps {
		switch st.Op {
		case "build":
			n := st.Node
			var args []cff.Emitter
			var margs []int
			if n.Kind == "spread" {
				lab["build:spread"] = true
				s := bases[n.Base]
				ms := baseModel[n.Base]
				if n.Extra >= 0 && n.Extra < len(nodes) {
					// append to the shared base: reuses the spare capacity (aliasing)
					s = append(s, nodes[n.Extra])
					ms = append(append([]int{}, ms...), n.Extra)
					lab["build:spread+append"] = true
				}
				args, margs = s, ms
			} else {
				for _, a := range n.Args {
					if a < len(nodes) {
						args = append(args, nodes[a])
						margs = append(margs, a)
					}
				}
				lab[fmt.Sprintf("build:lit%d", len(args))] = true
			}
			var built cff.Emitter
			func() {
				defer func() {
					if r := recover(); r != nil {
						fs = append(fs, emFinding{"C18", fmt.Sprintf("step %d: cff.EmitterStack panicked: %v", si, r)})
						built = cff.NopEmitter()
					}
				}()
				built = cff.EmitterStack(args...)
			}()
			den := map[int]int{}
			nested := false
			for _, a := range margs {
				if a > c.Leaves {
					nested = true
				}
				for l, m := range denote[a] {
					den[l] += m
				}
			}
			if nested {
				lab["build:nested"] = true
			}
			for _, m := range den {
				if m > 1 {
					lab["build:duplicate-leaf"] = true
				}
			}
			nodes = append(nodes, built)
			denote = append(denote, den)
		case "clobber":
			b := bases[st.Base]
			full := b[:cap(b)]
			if st.Pos < len(full) && st.With < len(nodes) {
				full[st.Pos] = nodes[st.With]
				if st.Pos < len(baseModel[st.Base]) {
					baseModel[st.Base][st.Pos] = st.With
				}
				lab["clobber"] = true
			}
		case "send":
			if st.To >= len(nodes) {
				continue
			}
			target, den := nodes[st.To], denote[st.To]
			a := st.Arg % 4
			doInit := func(kind string) *subEm {
				se := &subEm{kind: kind, den: den, ids: map[int][]string{}}
				var info interface{}
				func() {
					defer func() {
						if r := recover(); r != nil {
							fs = append(fs, emFinding{"C18", fmt.Sprintf("step %d: %sInit on a stack panicked: %v", si, kind, r)})
						}
					}()
					switch kind {
					case "Flow":
						info = finfo[a]
						se.real = target.FlowInit(finfo[a])
					case "Parallel":
						info = pinfo[a]
						se.real = target.ParallelInit(pinfo[a])
					case "Task":
						info = [2]interface{}{tinfo[a], dinfo[a]}
						se.real = target.TaskInit(tinfo[a], dinfo[a])
					case "Scheduler":
						info = sinfo[a]
						se.real = target.SchedulerInit(sinfo[a])
					}
				}()
				var ls []int
				for l := range den {
					ls = append(ls, l)
				}
				sort.Ints(ls)
				for _, l := range ls {
					for m := 0; m < den[l]; m++ {
						modelSubs[l]++
						name := fmt.Sprintf("%s#%d", kind, modelSubs[l])
						se.ids[l] = append(se.ids[l], name)
						want = append(want, emWant{leaf: l, sub: name, rec: emRecord{ev: kind + "Init", info: info}})
					}
				}
				lab["send:init"] = true
				if len(den) >= 2 {
					lab["send:to-stack"] = true
				}
				if se.real == nil {
					return nil
				}
				subs[st.To] = append(subs[st.To], se)
				return se
			}
			if strings.HasSuffix(st.Ev, "Init") {
				doInit(strings.TrimSuffix(st.Ev, "Init"))
				continue
			}
			// an event on the most recent matching sub-emitter of that node
			kind := "Task"
			switch {
			case strings.HasPrefix(st.Ev, "Flow"):
				kind = "Flow"
			case strings.HasPrefix(st.Ev, "Parallel"):
				kind = "Parallel"
			case st.Ev == "EmitScheduler":
				kind = "Scheduler"
			}
			var se *subEm
			for i := len(subs[st.To]) - 1; i >= 0; i-- {
				if subs[st.To][i].kind == kind {
					se = subs[st.To][i]
					break
				}
			}
			if se == nil {
				// no sub-emitter of that kind yet: obtain one first
				if se = doInit(kind); se == nil {
					continue
				}
			}
			rec := emRecord{ev: st.Ev}
			func() {
				defer func() {
					if r := recover(); r != nil {
						fs = append(fs, emFinding{"C18", fmt.Sprintf("step %d: %s on a stack panicked: %v", si, st.Ev, r)})
					}
				}()
				switch st.Ev {
				case "FlowSuccess":
					rec.ctx = ctxs[a]
					se.real.(cff.FlowEmitter).FlowSuccess(ctxs[a])
				case "FlowError":
					rec.ctx, rec.err = ctxs[a], errs[a]
					se.real.(cff.FlowEmitter).FlowError(ctxs[a], errs[a])
				case "FlowDone":
					rec.ctx, rec.d = ctxs[a], durs[a]
					se.real.(cff.FlowEmitter).FlowDone(ctxs[a], durs[a])
				case "ParallelSuccess":
					rec.ctx = ctxs[a]
					se.real.(cff.ParallelEmitter).ParallelSuccess(ctxs[a])
				case "ParallelError":
					rec.ctx, rec.err = ctxs[a], errs[a]
					se.real.(cff.ParallelEmitter).ParallelError(ctxs[a], errs[a])
				case "ParallelDone":
					rec.ctx, rec.d = ctxs[a], durs[a]
					se.real.(cff.ParallelEmitter).ParallelDone(ctxs[a], durs[a])
				case "TaskSuccess":
					rec.ctx = ctxs[a]
					se.real.(cff.TaskEmitter).TaskSuccess(ctxs[a])
				case "TaskError":
					rec.ctx, rec.err = ctxs[a], errs[a]
					se.real.(cff.TaskEmitter).TaskError(ctxs[a], errs[a])
				case "TaskErrorRecovered":
					rec.ctx, rec.err = ctxs[a], errs[a]
					se.real.(cff.TaskEmitter).TaskErrorRecovered(ctxs[a], errs[a])
				case "TaskSkipped":
					rec.ctx, rec.err = ctxs[a], errs[a]
					se.real.(cff.TaskEmitter).TaskSkipped(ctxs[a], errs[a])
				case "TaskPanic":
					rec.ctx, rec.pv = ctxs[a], pvs[a]
					se.real.(cff.TaskEmitter).TaskPanic(ctxs[a], pvs[a])
				case "TaskPanicRecovered":
					rec.ctx, rec.pv = ctxs[a], pvs[a]
					se.real.(cff.TaskEmitter).TaskPanicRecovered(ctxs[a], pvs[a])
				case "TaskDone":
					rec.ctx, rec.d = ctxs[a], durs[a]
					se.real.(cff.TaskEmitter).TaskDone(ctxs[a], durs[a])
				case "EmitScheduler":
					rec.st = states[a]
					se.real.(cff.SchedulerEmitter).EmitScheduler(states[a])
				}
			}()
			var ls []int
			for l := range se.ids {
				ls = append(ls, l)
			}
			sort.Ints(ls)
			for _, l := range ls {
				for _, name := range se.ids[l] {
					want = append(want, emWant{leaf: l, sub: name, rec: rec})
				}
			}
			lab["send:event"] = true
			if len(se.den) >= 2 {
				lab["send:event-to-stack"] = true
			}
		}
	}

	// Compare per leaf. Order between leaves is unspecified; order within a
	// leaf follows the script. Sub-emitter numbering of one leaf is by Init
	// arrival, which for a duplicated leaf within one stack is ambiguous
	// only up to renaming of identical Init records; compare after
	// canonical renaming by first appearance.
	for l := 0; l < c.Leaves; l++ {
		var got, exp []string
		canonG, canonE := map[string]int{}, map[string]int{}
		for _, r := range log {
			if r.leaf != l {
				continue
			}
			got = append(got, emKey(r, canon(canonG, r.sub)))
		}
		for _, w := range want {
			if w.leaf != l {
				continue
			}
			exp = append(exp, emKey(w.rec, canon(canonE, w.sub)))
		}
		if !sameSeqUpToDupInterleave(got, exp) {
			fs = append(fs, emFinding{"C18", fmt.Sprintf("emitter %d combined with cff.EmitterStack did not receive exactly the events it would receive alone:\n  got  %v\n  want %v", l, got, exp)})
		}
	}
	for k := range lab {
		labels = append(labels, k)
	}
	sort.Strings(labels)
	return fs, labels
}

func canon(m map[string]int, name string) int {
	if v, ok := m[name]; ok {
		return v
	}
	m[name] = len(m) + 1
	return m[name]
}

func emKey(r emRecord, sub int) string {
	return fmt.Sprintf("%s/s%d/ctx=%p/err=%p:%v/pv=%v/d=%d/info=%v/st=%v", r.ev, sub, r.ctx, r.err, r.err, pvKey(r.pv), r.d, infoKey(r.info), r.st)
}

func pvKey(v interface{}) string {
	if v == nil {
		return "-"
	}
	return fmt.Sprintf("%T:%p:%v", v, v, v)
}

func infoKey(v interface{}) string {
	switch x := v.(type) {
	case nil:
		return "-"
	case [2]interface{}:
		return fmt.Sprintf("%p+%p", x[0], x[1])
	default:
		return fmt.Sprintf("%p", x)
	}
}

// sameSeqUpToDupInterleave: the two sequences must be equal as sequences when
// the leaf occurs once in every stack; with a duplicated leaf the stack may
// deliver the copies of one event in any order, and the copies differ only in
// the sub-emitter number, so compare sorted runs of equal (event, args).
func sameSeqUpToDupInterleave(got, exp []string) bool {
	if len(got) != len(exp) {
		return false
	}
	strip := func(s string) string {
		i := strings.Index(s, "/s")
		j := strings.Index(s[i+1:], "/")
		return s[:i] + s[i+1+j:]
	}
	i := 0
	for i < len(exp) {
		j := i
		for j < len(exp) && strip(exp[j]) == strip(exp[i]) {
			j++
		}
		a := append([]string{}, got[i:j]...)
		b := append([]string{}, exp[i:j]...)
		sort.Strings(a)
		sort.Strings(b)
		for k := range a {
			if a[k] != b[k] {
				return false
			}
		}
		i = j
	}
	return true
}

func (c *emCase) hash() string {
	b, _ := json.Marshal(c)
	h := sha256.Sum256(b)
	return hex.EncodeToString(h[:8])
}

type emLogLine struct {
	H      string          `json:"h"`
	NT     bool            `json:"nt"`
	Labels []string        `json:"labels,omitempty"`
	Sample json.RawMessage `json:"sample,omitempty"`
}

type emFail struct {
	Prop     string      `json:"property"`
	Engine   string      `json:"engine"`
	Case     *emCase     `json:"case"`
	Findings []emFinding `json:"findings"`
}

func TestEmStack(t *testing.T) {
	if *flagReplay != "" {
		b, err := os.ReadFile(*flagReplay)
		if err != nil {
			t.Fatal(err)
		}
		var f emFail
		if err := json.Unmarshal(b, &f); err != nil || f.Case == nil {
			t.Fatalf("replay: %v", err)
		}
		if fs, _ := runEmCase(f.Case); len(fs) > 0 {
			t.Fatalf("replay reproduces: %s", fs[0].Msg)
		}
		return
	}
	var logf *os.File
	if *flagOut != "" {
		logf, _ = os.Create(filepath.Join(*flagOut, fmt.Sprintf("cases-%s-emstack-%d.jsonl", *flagProp, *flagShard)))
		defer logf.Close()
	}
	samples := 0
	rapid.Check(t, func(rt_ *rapid.T) {
		c := genEmCase(rt_)
		fs, labels := runEmCase(c)
		nt := false
		for _, l := range labels {
			if l == "send:event-to-stack" {
				nt = true
			}
		}
		if logf != nil {
			ll := emLogLine{H: c.hash(), NT: nt, Labels: labels}
			if nt && samples < 2 {
				samples++
				b, _ := json.Marshal(c)
				ll.Sample = b
			}
			b, _ := json.Marshal(ll)
			logf.Write(append(b, '\n'))
		}
		if len(fs) > 0 {
			if *flagOut != "" {
				b, _ := json.MarshalIndent(emFail{Prop: "C18", Engine: "emstack", Case: c, Findings: fs}, "", " ")
				os.WriteFile(filepath.Join(*flagOut, fmt.Sprintf("fail-%s-emstack-%d.json", *flagProp, *flagShard)), b, 0o644)
			}
			rt_.Fatalf("%s", fs[0].Msg)
		}
	})
}
