module go.uber.org/cff/verifx

go 1.23

require (
	go.uber.org/cff v0.0.0
	go.uber.org/multierr v1.11.0
	golang.org/x/tools v0.20.0
	pgregory.net/rapid v1.3.0
)

replace go.uber.org/cff => /repo
