// Package verifx holds the program generator (abstract specs drawn with
// rapid), the renderer from specs to Go source, and the engines E-GEN
// (in-process generator tests) and E-BIN (cff binary + compiled programs).
package verifx

import (
	"fmt"

	"go.uber.org/cff/verifx/rt"
	"pgregory.net/rapid"
)

// uniform draws a fair integer in [0,n) from single fair bits (rapid's
// numeric generators are biased towards small values). Shrinks to 0.
func uniform(t *rapid.T, label string, n int) int {
	if n <= 1 {
		return 0
	}
	v := 0
	for i := 0; i < 16; i++ {
		v <<= 1
		if rapid.Bool().Draw(t, label) {
			v |= 1
		}
	}
	return int(uint64(v) * uint64(n) >> 16)
}

func prob(t *rapid.T, label string, p float64) bool {
	if p <= 0 {
		return false
	}
	if p >= 1 {
		return true
	}
	return uniform(t, label, 1000) < int(p*1000)
}

// GenOpts steers the spec generator towards what a property needs.
type GenOpts struct {
	PPred       float64 // per-task probability of a predicate
	PFallback   float64 // per-task probability of FallbackWith
	PInstrument float64 // per-task probability of cff.Instrument (needs emitters)
	PEmitters   float64 // probability that the directive passes emitters at all
	PInstrD     float64 // probability of InstrumentFlow/InstrumentParallel given emitters
	PWrap       float64 // probability that argument expressions are wrapped in rt.Arg
	PParallel   float64 // probability that a directive is a cff.Parallel
	PEnd        float64 // probability of SliceEnd/MapEnd per collection
	PCOE        float64 // probability that a parallel without End hooks uses ContinueOnError
	MaxTasks    int
	PBig        float64  // probability of a flow with 13..17 tasks (sorting routines change algorithm above 12 elements)
	Spellings   []string // allowed function spellings
	ExtTypes    bool     // allow ext / ext2 types
	ModSubset   bool     // restrict flows to the modifier-mode subset
	PAuto       float64  // probability that -auto-instrument applies (package level)
	PShadow     float64  // probability that the enclosing function shadows generated identifiers
	PBare       float64  // probability that argument values are passed as bare identifiers named like generated ones
	PNamedBool  float64  // probability that a predicate returns a declared boolean type (free verdict; E-GEN only)
	Wide        bool     // C03: favour many independent tasks and the default limit
}

// DefaultOpts is the broad mixture.
func DefaultOpts() GenOpts {
	return GenOpts{PPred: 0.2, PFallback: 0.15, PInstrument: 0.3, PEmitters: 0.3, PInstrD: 0.6, PWrap: 0.2,
		PParallel: 0.35, PEnd: 0.4, PCOE: 0.5, MaxTasks: 7, PShadow: 0.15, PBare: 0.15,
		Spellings: []string{"lit", "lit", "lit", "top", "method", "funcvar", "callret", "imported", "generic", "pkgvar"}, ExtTypes: true}
}

// dupIn sometimes repeats one parameter type of a function: func(a T, b T, c U)
// is legal (both parameters receive the value of T's one provider).
//
// When possible the repeated type is followed by a different type that is
// assignable to it (every T, *T, N, S and G implements every I; T1 and the
// unnamed struct X1 have identical underlying types): a generator that mixes
// up the variables it passes then still emits code that compiles.
func dupIn(t *rapid.T, in []rt.TypeRef) []rt.TypeRef {
	if len(in) == 0 || !prob(t, "dupin", 0.25) {
		return in
	}
	in = append([]rt.TypeRef{}, in...)
	assignable := func(u, to rt.TypeRef) bool {
		if to.K == "I" {
			return u.K == "T" || u.K == "P" || u.K == "N" || u.K == "S" || u.K == "G"
		}
		return (to.K == "T" && to.I == 1 && u.K == "X" && u.I == 1) || (to.K == "X" && to.I == 1 && u.K == "T" && u.I == 1)
	}
	j := uniform(t, "dupat", len(in))
	for a := range in {
		for b := range in {
			if a != b && assignable(in[b], in[a]) {
				// order them as (.., in[a], in[b], ..)
				x, y := in[a], in[b]
				rest := []rt.TypeRef{}
				for k, v := range in {
					if k != a && k != b {
						rest = append(rest, v)
					}
				}
				in = append([]rt.TypeRef{x, y}, rest...)
				j = 0
			}
		}
	}
	out := append([]rt.TypeRef{}, in[:j+1]...)
	out = append(out, in[j])
	return append(out, in[j+1:]...)
}

type typePool struct {
	used map[string]bool
	ext  bool
}

var kindIdx = map[string]int{"T": 6, "P": 6, "N": 4, "S": 4, "L": 6, "M": 6, "G": 6, "W": 4, "U": 4, "V": 4, "I": 3, "A": 3, "X": 3, "F": 3, "int": 1, "string": 1}
var localKinds = []string{"T", "T", "T", "P", "P", "N", "S", "L", "M", "G", "I", "A", "X", "F", "int", "string"}
var extKinds = []string{"W", "W", "U", "U", "V", "V", "int", "string"}

// fresh returns a type not yet used in this directive; extOnly restricts to
// types an imported function may mention.
func (p *typePool) fresh(t *rapid.T, extOnly bool) (rt.TypeRef, bool) {
	kinds := localKinds
	if extOnly {
		kinds = extKinds
	} else if p.ext {
		kinds = append(append([]string{}, localKinds...), "W", "U", "V")
	}
	for try := 0; try < 40; try++ {
		k := kinds[uniform(t, "kind", len(kinds))]
		i := 1 + uniform(t, "tidx", kindIdx[k])
		if k == "int" || k == "string" {
			i = 0
		}
		tr := rt.TypeRef{K: k, I: i}
		if !p.used[tr.Key()] {
			p.used[tr.Key()] = true
			return tr, true
		}
	}
	return rt.TypeRef{}, false
}

func isExtType(t rt.TypeRef) bool {
	switch t.K {
	case "W", "U", "V", "int", "string":
		return true
	}
	return false
}

// GenFlow draws a well-formed flow (by construction: every type has exactly
// one provider and at least one consumer).
func GenFlow(t *rapid.T, name string, o GenOpts) *rt.Spec {
	s := &rt.Spec{Name: name, Kind: "flow", ModSubset: o.ModSubset}
	pool := &typePool{used: map[string]bool{}, ext: o.ExtTypes && !o.ModSubset}
	var avail []rt.TypeRef
	consumed := map[string]bool{}
	np := uniform(t, "nparams", 4)
	for i := 0; i < np; i++ {
		if tr, ok := pool.fresh(t, false); ok {
			s.Params = append(s.Params, tr)
			avail = append(avail, tr)
		}
	}
	nt := 1 + uniform(t, "ntasks", o.MaxTasks)
	if o.PBig > 0 && prob(t, "big", o.PBig) {
		nt = 13 + uniform(t, "bigntasks", 5)
	}
	unit := 0
	pickIn := func(max int, extOnly bool) []rt.TypeRef {
		var cands []rt.TypeRef
		for _, a := range avail {
			if !extOnly || isExtType(a) {
				cands = append(cands, a)
			}
		}
		if len(cands) == 0 || max == 0 {
			return nil
		}
		n := uniform(t, "nin", max+1)
		if n > len(cands) {
			n = len(cands)
		}
		var in []rt.TypeRef
		seen := map[string]bool{}
		for i := 0; i < n; i++ {
			// prefer not yet consumed types
			var c rt.TypeRef
			picked := false
			if prob(t, "preferfresh", 0.6) {
				for _, x := range cands {
					if !consumed[x.Key()] && !seen[x.Key()] {
						c, picked = x, true
						break
					}
				}
			}
			if !picked {
				c = cands[uniform(t, "in", len(cands))]
			}
			if seen[c.Key()] {
				continue
			}
			seen[c.Key()] = true
			in = append(in, c)
		}
		return in
	}
	for i := 0; i < nt; i++ {
		sp := "lit"
		if !o.ModSubset || true {
			sp = o.Spellings[uniform(t, "spelling", len(o.Spellings))]
		}
		extOnly := sp == "imported"
		ts := rt.TaskSpec{Unit: unit, Sp: sp}
		unit++
		ts.In = dupIn(t, pickIn(3, extOnly))
		nout := []int{0, 1, 1, 1, 1, 1, 1, 2, 2, 3}[uniform(t, "nout", 10)]
		if o.ModSubset && nout == 0 {
			nout = 1 // cff.Invoke is a task option: outside the modifier-mode subset
		}
		for k := 0; k < nout; k++ {
			if tr, ok := pool.fresh(t, extOnly); ok {
				ts.Out = append(ts.Out, tr)
			}
		}
		ts.Ctx = prob(t, "ctx", 0.5)
		ts.Err = prob(t, "err", 0.5)
		if sp == "top" || sp == "imported" || sp == "generic" || sp == "pkgvar" {
			ts.Ctx = true // static functions find their environment through the context
		}
		if len(ts.Out) == 0 {
			ts.Invoke = true
		}
		if !o.ModSubset && prob(t, "pred", o.PPred) {
			ps := &rt.PredSpec{Unit: unit, Sp: []string{"lit", "lit", "funcvar"}[uniform(t, "predsp", 3)]}
			unit++
			ps.In = dupIn(t, pickIn(2, false))
			ps.Ctx = prob(t, "predctx", 0.4)
			ps.NamedBool = prob(t, "prednamedbool", o.PNamedBool)
			ts.Pred = ps
			for _, x := range ps.In {
				consumed[x.Key()] = true
			}
		}
		if !o.ModSubset && prob(t, "fallback", o.PFallback) { // (an output-less task takes cff.FallbackWith() without values)
			ts.Fallback = true
			ts.Err = true
		}
		for _, x := range ts.In {
			consumed[x.Key()] = true
		}
		s.Tasks = append(s.Tasks, ts)
		avail = append(avail, ts.Out...)
	}
	s.Units = unit
	// Results: everything nobody consumed, plus a few consumed types.
	// (when the targets are spread over two cff.Results directives, one of
	// them preferably holds only types that a task consumes as well: if a
	// generator loses that directive the output still compiles)
	resSplit := prob(t, "ressplit", 0.3)
	pExtra := 0.15
	if resSplit {
		pExtra = 0.5
	}
	var alsoConsumed, onlyResult []rt.TypeRef
	for _, a := range avail {
		switch {
		case !consumed[a.Key()]:
			onlyResult = append(onlyResult, a)
		case prob(t, "extraresult", pExtra):
			alsoConsumed = append(alsoConsumed, a)
		}
	}
	if resSplit && len(alsoConsumed) > 0 && len(onlyResult) > 0 {
		s.Results = append(append(s.Results, alsoConsumed...), onlyResult...)
		s.ResSplit = len(alsoConsumed)
	} else {
		for _, a := range avail {
			for _, b := range append(append([]rt.TypeRef{}, alsoConsumed...), onlyResult...) {
				if a.Key() == b.Key() {
					s.Results = append(s.Results, a)
				}
			}
		}
		if resSplit && len(s.Results) >= 2 {
			s.ResSplit = 1 + uniform(t, "ressplitat", len(s.Results)-1)
		}
	}
	if len(s.Params) >= 2 && prob(t, "parsplit", 0.3) {
		s.ParSplit = 1 + uniform(t, "parsplitat", len(s.Params)-1)
	}
	genCommon(t, s, o)
	return s
}

func genCommon(t *rapid.T, s *rt.Spec, o GenOpts) {
	nconc := 6
	if o.Wide {
		nconc = 3 // mostly the default limit
	}
	switch uniform(t, "conc", nconc) {
	case 0, 1:
		s.Conc = ""
	case 2:
		s.Conc = "const:1"
	case 3:
		s.Conc = fmt.Sprintf("const:%d", 2+uniform(t, "conck", 3))
	default:
		s.Conc = "expr"
	}
	if !o.ModSubset && prob(t, "emitters", o.PEmitters) {
		s.Emitters = 1 + uniform(t, "nemit", 3)
		s.EmitNest = s.Emitters >= 2 && prob(t, "emitnest", 0.5)
		if prob(t, "emitshared", 0.2) {
			s.Emitters, s.EmitShared, s.EmitNest = 4, true, false
		} else if !s.EmitNest && prob(t, "emitprocbase", 0.35) {
			s.EmitProcBase = true
		}
		s.InstrumentD = prob(t, "instrd", o.PInstrD)
		for i := range s.Tasks {
			s.Tasks[i].Instrument = prob(t, "instr", o.PInstrument)
		}
		for i := range s.PTasks {
			s.PTasks[i].Instrument = prob(t, "instr", o.PInstrument) && s.PTasks[i].Group < 0
		}
	}
	s.Wrap = !o.ModSubset && prob(t, "wrap", o.PWrap)
	if !o.ModSubset {
		s.Shadow = prob(t, "shadow", o.PShadow)
		if !s.Shadow && !s.Wrap && prob(t, "bare", o.PBare) {
			s.Bare = true
			s.Conc = "expr" // rendered as the last option, with the poisoning side effect
		}
		switch uniform(t, "encl", 8) {
		case 0:
			s.Encl = "closure"
		case 1:
			s.Encl = "generic"
		}
		s.Paren = prob(t, "paren", 0.12)
		if prob(t, "stmtctx", 0.3) {
			s.Stmt = []string{"ifinit", "switch", "arg", "field", "tuple"}[uniform(t, "stmt", 5)]
		}
		if prob(t, "extra", 0.2) {
			s.Extra = 1 + uniform(t, "extran", 2)
		}
	}
	// consumers spell unnamed function types differently from producers
	// (identical types: parameter names are not part of a type's identity)
	s.AltSpell = prob(t, "altspell", 0.35)
	// listing order: a permutation of the options (filled by the renderer's option list)
	n := 64
	s.Order = make([]int, n)
	for i := range s.Order {
		s.Order[i] = i
	}
	if prob(t, "shuffle", 0.7) {
		for i := n - 1; i > 0; i-- {
			j := uniform(t, "perm", i+1)
			s.Order[i], s.Order[j] = s.Order[j], s.Order[i]
		}
	}
}

// GenParallel draws a cff.Parallel.
func GenParallel(t *rapid.T, name string, o GenOpts) *rt.Spec {
	s := &rt.Spec{Name: name, Kind: "parallel"}
	unit, coll := 0, 0
	np := uniform(t, "nptasks", 6)
	if o.Wide && prob(t, "wide", 0.5) {
		np = 6 + uniform(t, "nptasks2", 6) // more tasks than the default limit of 4 under few processors
	}
	ns := uniform(t, "nslices", 3)
	nm := uniform(t, "nmaps", 3)
	if np+ns+nm == 0 {
		np = 1
	}
	group := 0
	for i := 0; i < np; {
		// a run of 1..3 tasks, written as cff.Task or as one cff.Tasks(...)
		run := 1 + uniform(t, "run", 3)
		asTasks := prob(t, "astasks", 0.5)
		for k := 0; k < run && i < np; k++ {
			sp := []string{"lit", "lit", "lit", "top", "method", "funcvar", "callret", "generic", "samemethod", "samemethod", "pkgvar", "nextmethod", "nextmethod"}[uniform(t, "spelling", 13)]
			pt := rt.PTaskSpec{Unit: unit, Ctx: prob(t, "ctx", 0.5), Err: prob(t, "err", 0.5), Group: -1, Sp: sp}
			if sp == "top" || sp == "generic" || sp == "pkgvar" {
				pt.Ctx = true
			}
			if asTasks {
				pt.Group = group
			}
			unit++
			i++
			s.PTasks = append(s.PTasks, pt)
		}
		group++
	}
	elemKinds := []string{"T", "P", "N", "S", "int", "string", "I"}
	anyEnd := false
	for i := 0; i < ns; i++ {
		k := elemKinds[uniform(t, "elemkind", len(elemKinds))]
		e := rt.TypeRef{K: k, I: 1 + uniform(t, "elemidx", 3)}
		if k == "int" || k == "string" {
			e.I = 0
		}
		sl := rt.SliceSpec{Unit: unit, Coll: coll, Elem: e, Index: prob(t, "index", 0.6), Ctx: prob(t, "ctx", 0.5), Err: prob(t, "err", 0.5),
			Named: k == "T" && prob(t, "named", 0.3), Sp: []string{"lit", "lit", "funcvar", "top"}[uniform(t, "slicesp", 4)],
			Boxed: prob(t, "boxed", 0.35)}
		if sl.Sp == "top" {
			sl.Ctx = true
		}
		if !sl.Boxed && prob(t, "pkgcoll", 0.25) {
			sl.PkgVar, s.PkgState = true, true
		}
		unit++
		coll++
		if prob(t, "end", o.PEnd) {
			sl.End = &rt.EndSpec{Unit: unit, Ctx: prob(t, "endctx", 0.5), Err: prob(t, "enderr", 0.5)}
			unit++
			anyEnd = true
		}
		s.Slices = append(s.Slices, sl)
	}
	for i := 0; i < nm; i++ {
		k := elemKinds[uniform(t, "elemkind", len(elemKinds))]
		e := rt.TypeRef{K: k, I: 1 + uniform(t, "elemidx", 3)}
		if k == "int" || k == "string" {
			e.I = 0
		}
		mp := rt.MapSpec{Unit: unit, Coll: coll, Elem: e, Ctx: prob(t, "ctx", 0.5), Err: prob(t, "err", 0.5),
			Sp:   []string{"lit", "lit", "funcvar"}[uniform(t, "mapsp", 3)],
			KeyK: []string{"", "", "int", "struct"}[uniform(t, "mapkey", 4)], Named: prob(t, "namedmap", 0.3), Boxed: prob(t, "boxedmap", 0.35)}
		unit++
		coll++
		if prob(t, "end", o.PEnd) {
			mp.End = &rt.EndSpec{Unit: unit, Ctx: prob(t, "endctx", 0.5), Err: prob(t, "enderr", 0.5)}
			unit++
			anyEnd = true
		}
		s.Maps = append(s.Maps, mp)
	}
	s.Units, s.Colls = unit, coll
	if !anyEnd && prob(t, "coe", o.PCOE) {
		s.COE = []string{"true", "true", "false", "expr", "expr", "bctrue", "bcfalse"}[uniform(t, "coekind", 7)]
	}
	genCommon(t, s, o)
	return s
}

// GenDirective draws a flow or a parallel.
func GenDirective(t *rapid.T, name string, o GenOpts) *rt.Spec {
	if prob(t, "parallel", o.PParallel) {
		return GenParallel(t, name, o)
	}
	return GenFlow(t, name, o)
}
