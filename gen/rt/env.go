package rt

import (
	"context"
	"fmt"
	"go.uber.org/cff"
	"runtime"
	"strconv"
	"sync"
	"sync/atomic"
	"time"
)

// Outcome kinds.
const (
	OOk = iota
	OErr
	OPanic
	OGoexit // the function kills its goroutine with runtime.Goexit (domains C03, C05, C06 only)
)

// Predicate outcomes.
const (
	PTrue = iota
	PFalse
	PPanic
)

// Outcome is what one invocation of a unit does.
type Outcome struct {
	K  int `json:"k,omitempty"`  // OOk | OErr | OPanic
	PV int `json:"pv,omitempty"` // panic value kind: 0 string, 1 error, 2 runtime error, 3 struct, 4 pointer, 5 uncomparable struct, 6 slice, 7 error wrapping an older *cff.PanicError, 8 an older *cff.PanicError itself, 9 an error whose Is matches every target, 10 an error whose Is panics for foreign targets
	EV int `json:"ev,omitempty"` // error value kind: 0 unique value, 1 wraps context.DeadlineExceeded, 2 wraps context.Canceled, 3 the execution's shared instance, 4 wraps the *cff.PanicError of a nested directive, 5 a typed nil pointer in a non-nil error interface
	T  int `json:"t,omitempty"`  // timing: 0 instant, 1 yield, 2 sleep D microseconds
	D  int `json:"d,omitempty"`
}

// ElemOutcome overrides the outcome for one element of a collection.
type ElemOutcome struct {
	Unit int     `json:"unit"`
	Elem int     `json:"elem"`
	O    Outcome `json:"o"`
}

// Cancel kinds.
const (
	CNone = iota
	CPre
	CInUnit
	CTimer
)

// Scenario fixes everything about one execution that the program does not.
type Scenario struct {
	Seed    uint64        `json:"seed"`
	Out     []Outcome     `json:"out"`            // per unit
	Pred    []int         `json:"pred,omitempty"` // per unit (meaningful for predicate units)
	Elems   []ElemOutcome `json:"elems,omitempty"`
	Colls   [][]uint64    `json:"colls,omitempty"` // collection element tags
	CollNil []bool        `json:"collnil,omitempty"`
	N       int           `json:"n,omitempty"`   // value of the Concurrency expression
	COE     bool          `json:"coe,omitempty"` // value of the ContinueOnError expression
	CancelK int           `json:"cancelk,omitempty"`
	CancelU int           `json:"cancelu,omitempty"`
	CancelD int           `json:"canceld,omitempty"`
	G       int           `json:"g,omitempty"` // simultaneous executions
	// CustomCtx: the directive receives a hand-written context.Context (ManualCtx)
	CustomCtx bool `json:"customctx,omitempty"`

	// Gate scenario (C11 "as soon as the predicate's own inputs are
	// available"): unit GateU-1 parks at its start until unit GateFor-1 has
	// finished (or a generous timeout expires, which is the violation).
	GateU   int `json:"gateu,omitempty"`
	GateFor int `json:"gatefor,omitempty"`
	// Rendezvous scenario (C03 "the capacity is real"): every invocation of a
	// unit listed in RdvUnits - functions that have no dependency, hence are
	// runnable from the start - parks at its start until Rdv of them are
	// executing at the same time. Rdv = min(limit, number of such invocations).
	Rdv      int   `json:"rdv,omitempty"`
	RdvUnits []int `json:"rdvunits,omitempty"`
	// Panic-first scenario (C04, needs the scheduler hook points): unit
	// PFirst-1 panics at once while every other invocation of a unit listed
	// in PFirstUnits (the other dependency-free functions) parks until the
	// Scheduler Loop has received a result after that unit began and has
	// finished processing it - which can only be the panic. Only then do
	// they go on (and fail, if their outcome says so): a fail-fast directive
	// has recorded the panic first and must report it.
	// Root-failure scenario (C20): one worker, nothing cancelled, and the only
	// functions that fail are dependency-free tasks: the first of them in
	// enqueue order fails first and ends the flow, so base-mode and
	// modifier-mode code must return the error of the same task.
	RootFail    bool  `json:"rootfail,omitempty"`
	PFirst      int   `json:"pfirst,omitempty"`
	PFirstUnits []int `json:"pfirstunits,omitempty"`
}

// Event is one entry of the execution log.
type Event struct {
	Kind  string   `json:"kind"` // call | arg | result | emit
	Unit  int      `json:"unit"`
	Elem  int      `json:"elem"` // element index for collection units, else -1
	Idx   int      `json:"idx"`  // index argument received (-1 if none)
	Key   string   `json:"key,omitempty"`
	In    []uint64 `json:"in,omitempty"`
	Out   []uint64 `json:"out,omitempty"`
	Start int64    `json:"start"`
	End   int64    `json:"end"`
	Gid   int64    `json:"gid"`
	CtxOK bool     `json:"ctxok"`
	HasC  bool     `json:"hasc"` // a context was passed
	O     int      `json:"o"`    // outcome kind actually produced
	Ret   bool     `json:"ret"`  // predicate result

	// emitter events
	Em   int         `json:"em,omitempty"`
	Name string      `json:"name,omitempty"` // task / directive name
	Ev   string      `json:"ev,omitempty"`   // FlowSuccess, TaskError, ...
	Err  error       `json:"-"`
	PV   interface{} `json:"-"`
	ErrS string      `json:"errs,omitempty"`
}

// TaskErr is the unique error value a unit invocation returns.
type TaskErr struct {
	Env, Unit, Elem int
}

func (e *TaskErr) Error() string {
	if e == nil {
		return "typed nil error value"
	}
	return fmt.Sprintf("unit %d elem %d failed (env %d)", e.Unit, e.Elem, e.Env)
}

// WrapErr is a unit's error that wraps a context error, as the error of a
// task-local context.WithTimeout would, although the directive's context is
// alive.
type WrapErr struct {
	TaskErr
	Inner error
}

func (e *WrapErr) Error() string { return e.TaskErr.Error() + ": " + e.Inner.Error() }
func (e *WrapErr) Unwrap() error { return e.Inner }

// PanicSlice is an uncomparable struct used as a panic value.
type PanicSlice struct{ IDs []int }

// PanicErr is an error used as a panic value.
type PanicErr struct{ Env, Unit, Elem int }

func (e *PanicErr) Error() string { return fmt.Sprintf("panic-error unit %d elem %d", e.Unit, e.Elem) }

// PermErr is an error whose Is method reports a match for every target (a
// category-style error), used as a panic value.
type PermErr struct{ Env, Unit, Elem int }

func (e *PermErr) Error() string {
	return fmt.Sprintf("permissive error unit %d elem %d", e.Unit, e.Elem)
}
func (e *PermErr) Is(error) bool { return true }

// BadIsErr is an error whose Is method panics for targets of another type
// (an unchecked type assertion), used as a panic value.
type BadIsErr struct{ Env, Unit, Elem int }

func (e *BadIsErr) Error() string { return fmt.Sprintf("bad-is error unit %d elem %d", e.Unit, e.Elem) }
func (e *BadIsErr) Is(target error) bool {
	return *target.(*BadIsErr) == *e
}

// PanicStruct is a struct used as a panic value.
type PanicStruct struct{ Env, Unit, Elem int }

// Injected records a fault the harness injected, for identity comparison.
type Injected struct {
	Unit, Elem int
	Err        error       // returned error (OErr)
	PV         interface{} // panic value (OPanic), nil for runtime errors
	PVText     string      // text of runtime-error panics
	Goexit     bool        // the function exited its goroutine
	Seq        int64
}

var globalSeq atomic.Int64

// Seq returns the next global sequence number.
func Seq() int64 { return globalSeq.Add(1) }

type envKey struct{}

// Env is the environment of ONE execution of ONE directive.
type Env struct {
	ID   int
	Spec *Spec
	Scn  *Scenario

	mu       sync.Mutex
	Events   []Event
	Injected []Injected
	Results  map[int]uint64
	ArgLog   []Event

	Cancel    context.CancelFunc
	CancelSeq atomic.Int64
	CallGid   int64 // goroutine that runs the directive
	// Solo: no other execution of the same program runs in this process at
	// the same time (package-level state of the program may be modified)
	Solo    bool
	CallSeq int64 // seq when the directive was entered
	RetSeq  int64

	inflight    atomic.Int32
	MaxInflight atomic.Int32

	// Census (C03): every user function counts the goroutines that were
	// started by the scheduler, the cff runtime or generated code (stack dump
	// of the process); MaxG keeps the maximum.
	Census bool
	MaxG   atomic.Int32
	// InconclusiveWhy explains a gate / rendezvous timeout that was not a verdict.
	InconclusiveWhy string
	// BaseG: goroutines that existed before the directive was called.
	BaseG map[int64]bool
	// MaxGInfo describes the goroutines of the largest census (guarded by mu).
	MaxGInfo string

	elemOut map[[2]int]Outcome
	Ems     []*RecEmitter

	gateOnce         sync.Once
	gateCh           chan struct{}
	rdvOnce          sync.Once
	rdvCh            chan struct{}
	rdvArrived       atomic.Int32
	rdvJudge         atomic.Bool
	nextK            atomic.Int32
	pfBegan          atomic.Bool
	pfBase           atomic.Int64
	PFirstUnreleased atomic.Bool // a parked function gave up waiting: no verdict
	RdvTimedOut      atomic.Bool
	RdvSeen          atomic.Int32 // arrivals when the process was found stuck
	GateTimedOut     atomic.Bool
	GateInconclusive atomic.Bool

	// Race selects the race-detector flavour (C12): user functions record
	// nothing and take no lock, so that the harness adds no happens-before
	// edges between tasks; only the race detector and the final Results
	// are judged.
	Race  bool
	slots []uint64 // one plain variable per unit, written by its body in Race mode

	shared *TaskErr // the one error instance returned by every unit whose outcome says EV=3
}

func (e *Env) sharedErr() error { return e.shared }

// NewEnv builds the environment for one execution.
func NewEnv(id int, spec *Spec, scn *Scenario) *Env {
	e := &Env{ID: id, Spec: spec, Scn: scn, Results: map[int]uint64{}, elemOut: map[[2]int]Outcome{}, gateCh: make(chan struct{}), rdvCh: make(chan struct{}),
		shared: &TaskErr{id, -2, -2}}
	for _, eo := range scn.Elems {
		e.elemOut[[2]int{eo.Unit, eo.Elem}] = eo.O
	}
	e.slots = make([]uint64, spec.Units+1)
	n := spec.Emitters
	if spec.EmitShared {
		n++ // the decoy
	}
	for i := 0; i < n; i++ {
		e.Ems = append(e.Ems, &RecEmitter{env: e, idx: i})
	}
	return e
}

// NextUnit returns the unit bound to the next evaluation of a "nextmethod"
// task expression (Spec.NextUnits lists them in source order).
func (e *Env) NextUnit() int {
	k := int(e.nextK.Add(1)) - 1
	if k < len(e.Spec.NextUnits) {
		return e.Spec.NextUnits[k]
	}
	return -1 // evaluated more often than written: the model reports an unknown unit
}

func (e *Env) pfMember(unit int) bool {
	for _, u := range e.Scn.PFirstUnits {
		if u == unit {
			return true
		}
	}
	return false
}

func (e *Env) rdvMember(unit int) bool {
	for _, u := range e.Scn.RdvUnits {
		if u == unit {
			return true
		}
	}
	return false
}

// WithEnv returns a context that carries the environment.
func WithEnv(ctx context.Context, e *Env) context.Context {
	return context.WithValue(ctx, envKey{}, e)
}

// FromCtx finds the environment of the running directive.
func FromCtx(ctx context.Context) *Env {
	e, _ := ctx.Value(envKey{}).(*Env)
	if e == nil {
		panic("rt: context does not carry the directive's environment")
	}
	return e
}

// Mix is the deterministic tag hash. Results are odd, hence non-zero.
func Mix(vals ...uint64) uint64 {
	h := uint64(0x9E3779B97F4A7C15)
	for _, v := range vals {
		h ^= v + 0x9E3779B97F4A7C15 + (h << 6) + (h >> 2)
		h *= 0xBF58476D1CE4E5B9
		h ^= h >> 29
	}
	// keep tags small enough to survive int / decimal-string carriers
	return (h>>12)<<1 | 1
}

// ParamTag is the tag of the k-th cff.Params value.
func (e *Env) ParamTag(k int) uint64 { return Mix(1, e.Scn.Seed, uint64(e.ID), uint64(k)) }

// Param is used by generated code.
func (e *Env) Param(k int) uint64 { return e.ParamTag(k) }

// SentinelTag is pre-stored in the k-th cff.Results target.
func (e *Env) SentinelTag(k int) uint64 { return Mix(2, e.Scn.Seed, uint64(e.ID), uint64(k)) }

// Sentinel is used by generated code.
func (e *Env) Sentinel(k int) uint64 { return e.SentinelTag(k) }

// FallbackTag is the k-th FallbackWith value of a task.
func (e *Env) FallbackTag(unit, k int) uint64 {
	return Mix(3, e.Scn.Seed, uint64(e.ID), uint64(unit), uint64(k))
}

// Fallback is used by generated code.
func (e *Env) Fallback(unit, k int) uint64 { return e.FallbackTag(unit, k) }

// OutTag is the k-th output of a task for the given inputs.
func OutTag(unit, k int, ins []uint64) uint64 {
	v := append([]uint64{4, uint64(unit), uint64(k)}, ins...)
	return Mix(v...)
}

// Coll returns the element tags of collection c (nil for a nil collection).
func (e *Env) Coll(c int) []uint64 {
	if c < len(e.Scn.CollNil) && e.Scn.CollNil[c] {
		return nil
	}
	if c >= len(e.Scn.Colls) || e.Scn.Colls[c] == nil {
		return []uint64{}
	}
	return e.Scn.Colls[c]
}

// MapKey is the key of the i-th entry of a map collection.
func MapKey(i int) string { return "k" + strconv.Itoa(i) }

// ConcN is the value of a Concurrency expression.
func (e *Env) ConcN() int {
	if e.Scn.N <= 0 {
		return 1
	}
	return e.Scn.N
}

// COEVal is the value of a ContinueOnError expression.
func (e *Env) COEVal() bool { return e.Scn.COE }

// Result records the final value of the k-th cff.Results target.
func (e *Env) Result(k int, tag uint64) {
	e.mu.Lock()
	e.Results[k] = tag
	e.mu.Unlock()
}

// Arg logs the evaluation of the k-th wrapped argument expression and
// returns the value unchanged.
func Arg[T any](e *Env, k int, v T) T {
	if e.Race {
		// plain reads of the slots the task bodies write (see begin): race
		// free as long as every argument expression is evaluated before the
		// directive hands anything to the scheduler
		var sum uint64
		for i := range e.slots {
			sum += e.slots[i]
		}
		runtime.KeepAlive(sum)
	}
	ev := Event{Kind: "arg", Unit: k, Elem: -1, Idx: -1, Start: Seq(), Gid: Gid()}
	e.mu.Lock()
	e.ArgLog = append(e.ArgLog, ev)
	e.mu.Unlock()
	return v
}

// Gid returns the current goroutine id.
func Gid() int64 {
	var buf [64]byte
	n := runtime.Stack(buf[:], false)
	// "goroutine 123 ["
	s := buf[len("goroutine "):n]
	id := int64(0)
	for _, c := range s {
		if c < '0' || c > '9' {
			break
		}
		id = id*10 + int64(c-'0')
	}
	return id
}

func (e *Env) outcomeFor(unit, elem int) Outcome {
	if o, ok := e.elemOut[[2]int{unit, elem}]; ok {
		return o
	}
	if unit < len(e.Scn.Out) {
		return e.Scn.Out[unit]
	}
	return Outcome{}
}

// begin logs the start of a unit invocation and applies timing/cancel.
func (e *Env) begin(unit, elem, idx int, key string, ctx context.Context, ins []uint64) (int, Outcome) {
	if e.Race {
		if elem < 0 && unit >= 0 && unit < len(e.slots) {
			e.slots[unit]++ // plain write to the unit's own slot (no two invocations of such a unit overlap)
		}
		o := e.outcomeFor(unit, elem)
		switch o.T {
		case 1:
			runtime.Gosched()
		case 2:
			time.Sleep(time.Duration(o.D) * time.Microsecond)
		}
		if e.Scn.CancelK == CInUnit && e.Scn.CancelU == unit && e.Cancel != nil {
			e.Cancel()
		}
		return -1, o
	}
	ev := Event{Kind: "call", Unit: unit, Elem: elem, Idx: idx, Key: key, In: append([]uint64(nil), ins...), Gid: Gid()}
	if ctx != nil {
		ev.HasC = true
		if ce, _ := ctx.Value(envKey{}).(*Env); ce == e {
			ev.CtxOK = true
		}
	}
	cur := e.inflight.Add(1)
	for {
		old := e.MaxInflight.Load()
		if cur <= old || e.MaxInflight.CompareAndSwap(old, cur) {
			break
		}
	}
	if e.Census {
		// goroutines started by the scheduler, the cff runtime or generated
		// code (exiting goroutines no longer appear in a stack dump, unlike
		// in runtime.NumGoroutine)
		cn, info := CreatedForInfo(DumpGoroutines(), e.CallGid, e.BaseG)
		n := int32(cn)
		for {
			old := e.MaxG.Load()
			if n <= old {
				break
			}
			if e.MaxG.CompareAndSwap(old, n) {
				e.mu.Lock()
				e.MaxGInfo = info
				e.mu.Unlock()
				break
			}
		}
	}
	ev.Start = Seq()
	e.mu.Lock()
	e.Events = append(e.Events, ev)
	pos := len(e.Events) - 1
	e.mu.Unlock()
	o := e.outcomeFor(unit, elem)
	switch o.T {
	case 1:
		runtime.Gosched()
	case 2:
		time.Sleep(time.Duration(o.D) * time.Microsecond)
	}
	if e.Scn.PFirst > 0 {
		if unit == e.Scn.PFirst-1 {
			e.pfBase.Store(HookSeen())
			e.pfBegan.Store(true)
		} else if e.pfMember(unit) {
			deadline := time.Now().Add(5 * time.Second)
			for !(e.pfBegan.Load() && HookSettled() > e.pfBase.Load()) {
				if time.Now().After(deadline) {
					e.PFirstUnreleased.Store(true)
					break
				}
				time.Sleep(50 * time.Microsecond)
			}
		}
	}
	if e.Scn.Rdv > 0 && e.rdvMember(unit) {
		if int(e.rdvArrived.Add(1)) >= e.Scn.Rdv {
			e.rdvOnce.Do(func() { close(e.rdvCh) })
		}
		// (as for the gate: a verdict only if the whole process is provably stuck)
		tm := time.NewTimer(5 * time.Second)
		select {
		case <-e.rdvCh:
		case <-tm.C:
			if !e.rdvJudge.CompareAndSwap(false, true) {
				// another waiter is judging (several judges would see each
				// other running and never find the process stuck)
				<-e.rdvCh
			} else if _, stuck := stableBlocked(map[int64]bool{}); stuck {
				e.RdvSeen.Store(e.rdvArrived.Load())
				e.RdvTimedOut.Store(true)
				e.rdvOnce.Do(func() { close(e.rdvCh) })
			} else {
				e.GateInconclusive.Store(true)
				e.mu.Lock()
				e.InconclusiveWhy = "rendezvous: " + WhyNotStuck()
				e.mu.Unlock()
				tm2 := time.NewTimer(10 * time.Second)
				select {
				case <-e.rdvCh:
				case <-tm2.C:
					e.rdvOnce.Do(func() { close(e.rdvCh) })
				}
				tm2.Stop()
			}
		}
		tm.Stop()
	}
	if e.Scn.GateU == unit+1 && e.Scn.GateFor > 0 {
		// Not a wall-clock verdict: after the timer fires, the violation is
		// only declared if the whole process is provably stuck (every
		// scheduler goroutine blocked, nothing runnable, twice 300ms apart).
		// Otherwise the machine was merely slow: inconclusive.
		tm := time.NewTimer(5 * time.Second)
		select {
		case <-e.gateCh:
		case <-tm.C:
			if _, stuck := stableBlocked(map[int64]bool{}); stuck {
				e.GateTimedOut.Store(true)
			} else {
				e.GateInconclusive.Store(true)
				tm2 := time.NewTimer(60 * time.Second)
				select {
				case <-e.gateCh:
				case <-tm2.C:
				}
				tm2.Stop()
			}
		}
		tm.Stop()
	}
	if e.Scn.CancelK == CInUnit && e.Scn.CancelU == unit && e.Cancel != nil {
		e.Cancel()
		e.CancelSeq.CompareAndSwap(0, Seq())
	}
	return pos, o
}

// finish logs the end of the invocation and produces its outcome. It either
// returns the error to return, or panics.
func (e *Env) finish(pos int, unit, elem int, o Outcome, canErr bool, outs []uint64, ret bool) error {
	kind := o.K
	if kind == OErr && !canErr {
		kind = OOk // the signature has no error result
	}
	var inj *Injected
	switch kind {
	case OErr:
		inj = &Injected{Unit: unit, Elem: elem}
		switch o.EV {
		case 1:
			inj.Err = &WrapErr{TaskErr{e.ID, unit, elem}, context.DeadlineExceeded}
		case 2:
			inj.Err = &WrapErr{TaskErr{e.ID, unit, elem}, context.Canceled}
		case 3:
			inj.Err = e.sharedErr()
		case 5:
			// a non-nil error interface holding a nil pointer: still a failure
			inj.Err = (*TaskErr)(nil)
		case 4:
			// what a task returns when it hands back the error of a nested
			// directive one of whose functions panicked
			inj.Err = &WrapErr{TaskErr{e.ID, unit, elem}, &cff.PanicError{Value: "a panic inside a nested directive"}}
		default:
			inj.Err = &TaskErr{e.ID, unit, elem}
		}
	case OGoexit:
		inj = &Injected{Unit: unit, Elem: elem, Goexit: true}
	case OPanic:
		inj = &Injected{Unit: unit, Elem: elem}
		switch o.PV {
		case 0:
			inj.PV = fmt.Sprintf("boom unit %d elem %d env %d", unit, elem, e.ID)
		case 1:
			inj.PV = &PanicErr{e.ID, unit, elem}
		case 2:
			inj.PVText = "assignment to entry in nil map"
		case 3:
			inj.PV = PanicStruct{e.ID, unit, elem}
		case 5:
			inj.PV = PanicSlice{[]int{e.ID, unit, elem}}
		case 6:
			inj.PV = []int{e.ID, unit, elem}
		case 7:
			// an error that wraps the PanicError of some earlier, unrelated panic
			// (what a task gets when it re-panics with the error of a nested directive)
			inj.PV = &WrapErr{TaskErr{e.ID, unit, elem}, &cff.PanicError{Value: "an older panic"}}
		case 8:
			// the PanicError of an older panic itself (a task that re-panics with
			// the error a nested directive returned)
			inj.PV = &cff.PanicError{Value: PanicStruct{e.ID, unit, elem}}
		case 9:
			inj.PV = &PermErr{e.ID, unit, elem}
		case 10:
			inj.PV = &BadIsErr{e.ID, unit, elem}
		default:
			inj.PV = &PanicStruct{e.ID, unit, elem}
		}
	}
	if e.Race {
		switch kind {
		case OGoexit:
			runtime.Goexit()
		case OErr:
			return inj.Err
		case OPanic:
			if o.PV == 2 {
				var m map[int]int
				m[unit] = elem
			}
			panic(inj.PV)
		}
		return nil
	}
	e.inflight.Add(-1)
	end := Seq()
	if e.Scn.GateFor == unit+1 {
		e.gateOnce.Do(func() { close(e.gateCh) })
	}
	e.mu.Lock()
	e.Events[pos].End = end
	e.Events[pos].O = kind
	e.Events[pos].Out = outs
	e.Events[pos].Ret = ret
	if inj != nil {
		inj.Seq = end
		e.Injected = append(e.Injected, *inj)
	}
	e.mu.Unlock()
	switch kind {
	case OGoexit:
		runtime.Goexit()
	case OErr:
		return inj.Err
	case OPanic:
		if o.PV == 2 {
			var m map[int]int
			m[unit] = elem // runtime error: assignment to entry in nil map
		}
		panic(inj.PV)
	}
	return nil
}

// Task is the body of a flow task: returns the output tags.
func (e *Env) Task(unit int, ctx context.Context, ins ...uint64) ([]uint64, error) {
	pos, o := e.begin(unit, -1, -1, "", ctx, ins)
	nout, canErr := 0, false
	for i := range e.Spec.Tasks {
		if e.Spec.Tasks[i].Unit == unit {
			nout, canErr = len(e.Spec.Tasks[i].Out), e.Spec.Tasks[i].Err
		}
	}
	outs := make([]uint64, nout)
	if o.K == OOk || (o.K == OErr && !canErr) {
		for k := range outs {
			outs[k] = OutTag(unit, k, ins)
		}
	}
	err := e.finish(pos, unit, -1, o, canErr, outs, false)
	if err != nil {
		for k := range outs {
			outs[k] = 0
		}
	}
	return outs, err
}

// Pred is the body of a predicate.
func (e *Env) Pred(unit int, ctx context.Context, ins ...uint64) bool {
	pos, o := e.begin(unit, -1, -1, "", ctx, ins)
	p := PTrue
	if unit < len(e.Scn.Pred) {
		p = e.Scn.Pred[unit]
	}
	if p == PPanic {
		o.K = OPanic
	} else {
		o.K = OOk
	}
	e.finish(pos, unit, -1, o, false, nil, p == PTrue)
	return p == PTrue
}

// PTask is the body of a parallel task, a SliceEnd or a MapEnd function.
func (e *Env) PTask(unit int, ctx context.Context) error {
	pos, o := e.begin(unit, -1, -1, "", ctx, nil)
	return e.finish(pos, unit, -1, o, e.Spec.UnitCanErr()[unit], nil, false)
}

// Elem is the body of a slice or map function. elem is the position of the
// element in the scenario's collection (found by tag), idx the index
// argument the function received (-1 if it has none).
func (e *Env) Elem(unit int, ctx context.Context, idx int, key string, tag uint64) error {
	elem := -1
	coll := -1
	for _, s := range e.Spec.Slices {
		if s.Unit == unit {
			coll = s.Coll
		}
	}
	for _, s := range e.Spec.Maps {
		if s.Unit == unit {
			coll = s.Coll
		}
	}
	if coll >= 0 {
		for i, t := range e.Coll(coll) {
			if t == tag {
				elem = i
				break
			}
		}
	}
	pos, o := e.begin(unit, elem, idx, key, ctx, []uint64{tag})
	return e.finish(pos, unit, elem, o, e.Spec.UnitCanErr()[unit], nil, false)
}

// Program is a generated directive function.
type Program func(env *Env, ctx context.Context) error

var registry = map[string]Program{}

// Register is called from the init functions of generated program files.
func Register(name string, p Program) { registry[name] = p }

// Lookup finds a registered program.
func Lookup(name string) Program { return registry[name] }

// After runs f and returns v: an argument expression with a side effect.
func After[T any](v T, f func()) T {
	f()
	return v
}

// ManualCtx is a hand-written context.Context (its own Done channel and Err),
// not derived from one of the context package's constructors: the standard
// library can only follow its cancellation through a helper goroutine, so a
// directive that derives a child context from it sees the cancellation late.
type ManualCtx struct {
	parent context.Context
	mu     sync.Mutex
	done   chan struct{}
	err    error
}

// NewManualCtx returns a live hand-written context carrying parent's values.
func NewManualCtx(parent context.Context) *ManualCtx {
	return &ManualCtx{parent: parent, done: make(chan struct{})}
}

// Deadline implements context.Context.
func (c *ManualCtx) Deadline() (time.Time, bool) { return time.Time{}, false }

// Done implements context.Context.
func (c *ManualCtx) Done() <-chan struct{} { return c.done }

// Err implements context.Context.
func (c *ManualCtx) Err() error {
	c.mu.Lock()
	defer c.mu.Unlock()
	return c.err
}

// Value implements context.Context.
func (c *ManualCtx) Value(k interface{}) interface{} { return c.parent.Value(k) }

// Cancel cancels the context; Err reports context.Canceled from then on.
func (c *ManualCtx) Cancel() {
	c.mu.Lock()
	defer c.mu.Unlock()
	if c.err == nil {
		c.err = context.Canceled
		close(c.done)
	}
}
