//go:build verif

package rt

import (
	"sync/atomic"
	"time"

	"go.uber.org/cff/scheduler"
)

// HooksOn reports whether the scheduler's verification hook points are
// compiled in (build tag verif).
const HooksOn = true

var (
	hookPerturb atomic.Bool // delay some workers between finishing a job and posting its result
	hookTick    atomic.Uint64
	hookSeen    atomic.Int64 // results the Scheduler Loop has received
	hookSettled atomic.Int64 // value of hookSeen when the loop last went on (next iteration or exit)
)

// InstallHooks installs the process-wide scheduler hook that counts the
// results a Scheduler Loop has received and finished processing.
func InstallHooks() {
	scheduler.SetVerifHook(func(point, _ int) {
		switch point {
		case scheduler.VerifResult:
			hookSeen.Add(1)
		case scheduler.VerifLoopTop, scheduler.VerifLoopExit:
			hookSettled.Store(hookSeen.Load())
		case scheduler.VerifWorkerPost:
			// schedule perturbation: now and then a worker is slow to post its
			// result, which widens the windows in which other workers pick up
			// jobs and the loop handles other results first (timing only)
			if hookPerturb.Load() && hookTick.Add(1)%3 == 0 {
				time.Sleep(40 * time.Microsecond)
			}
		}
	})
}

// SetPerturb switches the schedule perturbation of the hook on or off.
func SetPerturb(on bool) { hookPerturb.Store(on) }

// HookSeen returns the number of results received so far.
func HookSeen() int64 { return hookSeen.Load() }

// HookSettled returns the number of received results whose processing is over.
func HookSettled() int64 { return hookSettled.Load() }
