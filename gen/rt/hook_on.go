//go:build verif

package rt

import (
	"sync/atomic"

	"go.uber.org/cff/scheduler"
)

// HooksOn reports whether the scheduler's verification hook points are
// compiled in (build tag verif).
const HooksOn = true

var (
	hookSeen    atomic.Int64 // results the Scheduler Loop has received
	hookSettled atomic.Int64 // value of hookSeen when the loop last went on (next iteration or exit)
)

// InstallHooks installs the process-wide scheduler hook that counts the
// results a Scheduler Loop has received and finished processing.
func InstallHooks() {
	scheduler.SetVerifHook(func(point, _ int) {
		switch point {
		case scheduler.VerifResult:
			hookSeen.Add(1)
		case scheduler.VerifLoopTop, scheduler.VerifLoopExit:
			hookSettled.Store(hookSeen.Load())
		}
	})
}

// HookSeen returns the number of results received so far.
func HookSeen() int64 { return hookSeen.Load() }

// HookSettled returns the number of received results whose processing is over.
func HookSettled() int64 { return hookSettled.Load() }
