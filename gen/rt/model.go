package rt

import (
	"context"
	"errors"
	"fmt"
	"reflect"
	"runtime"
	"sort"
	"strings"

	"go.uber.org/cff"
	"go.uber.org/multierr"
)

// Finding is one oracle violation attributed to a property.
type Finding struct {
	Prop string `json:"prop"`
	Msg  string `json:"msg"`
}

// Run is what the driver observed for one execution.
type Run struct {
	Env      *Env
	Err      error       // error returned by the directive
	Panicked interface{} // non-nil if the directive call itself panicked
	Mode     string      // property whose scenario domain was used
}

func isCtxErr(err error) bool {
	return errors.Is(err, context.Canceled) || errors.Is(err, context.DeadlineExceeded)
}

// matchInjected reports whether err is (errors.Is / errors.As) the fault inj.
func matchInjected(err error, inj Injected) bool {
	if inj.Goexit {
		// the scheduler reports a job whose goroutine exited with an error of its own
		return err != nil && strings.Contains(err.Error(), "exited")
	}
	if inj.Err != nil {
		return errors.Is(err, inj.Err)
	}
	var pe *cff.PanicError
	if !errors.As(err, &pe) {
		return false
	}
	return panicValueMatches(pe.Value, inj)
}

func panicValueMatches(v interface{}, inj Injected) bool {
	if inj.PV != nil {
		if t := reflect.TypeOf(inj.PV); !t.Comparable() {
			// slices and structs holding slices: identical contents
			return reflect.TypeOf(v) == t && reflect.DeepEqual(v, inj.PV)
		}
		defer func() { recover() }() // an uncomparable v never matches a comparable injected value
		return v == inj.PV
	}
	re, ok := v.(runtime.Error)
	return ok && strings.Contains(re.Error(), inj.PVText)
}

type callKey struct{ unit, elem int }

// calls indexes the call events of a run.
func calls(e *Env) map[callKey][]Event {
	m := map[callKey][]Event{}
	for _, ev := range e.Events {
		if ev.Kind == "call" {
			k := callKey{ev.Unit, ev.Elem}
			m[k] = append(m[k], ev)
		}
	}
	return m
}

func tagsEq(a, b []uint64) bool {
	if len(a) != len(b) {
		return false
	}
	for i := range a {
		if a[i] != b[i] {
			return false
		}
	}
	return true
}

// flowModel is the result of interpreting a flow under a scenario.
type flowModel struct {
	val      map[string]uint64 // type key -> tag, for live types
	dead     map[string]bool   // type key -> provider hard-failed or was blocked
	provider map[string]int    // type key -> unit of providing task (-1: params)

	taskIn   map[int][]uint64 // unit -> expected input tags (when it can run)
	mustRun  map[int]bool     // units that run in every schedule (absent failures: all non-blocked)
	mustNot  map[int]bool     // units that must never run
	hard     map[int]bool     // units (tasks) that fail hard; value irrelevant
	hardPred map[int]bool     // task units failing because their predicate panicked (no fallback)
	fbFired  map[int]bool     // task units whose fallback fired
	predOut  map[int]int      // pred unit -> outcome when it runs
	results  []uint64         // expected Results tags when the flow returns nil
	resDead  bool             // some result is dead (implies hard failure)
}

func interpretFlow(s *Spec, scn *Scenario, e *Env) *flowModel {
	m := &flowModel{val: map[string]uint64{}, dead: map[string]bool{}, provider: map[string]int{},
		taskIn: map[int][]uint64{}, mustRun: map[int]bool{}, mustNot: map[int]bool{}, hard: map[int]bool{},
		hardPred: map[int]bool{}, fbFired: map[int]bool{}, predOut: map[int]int{}}
	for k, p := range s.Params {
		m.val[p.Key()] = e.ParamTag(k)
		m.provider[p.Key()] = -1
	}
	gather := func(ts []TypeRef) ([]uint64, bool) {
		in := make([]uint64, len(ts))
		for i, t := range ts {
			if m.dead[t.Key()] {
				return nil, false
			}
			in[i] = m.val[t.Key()]
		}
		return in, true
	}
	for i := range s.Tasks {
		t := &s.Tasks[i]
		for _, o := range t.Out {
			m.provider[o.Key()] = t.Unit
		}
		kill := func() {
			for _, o := range t.Out {
				m.dead[o.Key()] = true
			}
		}
		setFallback := func() {
			m.fbFired[t.Unit] = true
			for k, o := range t.Out {
				m.val[o.Key()] = e.FallbackTag(t.Unit, k)
			}
		}
		runTask := true
		if t.Pred != nil {
			pin, ok := gather(t.Pred.In)
			if !ok {
				m.mustNot[t.Pred.Unit] = true
				m.mustNot[t.Unit] = true
				kill()
				continue
			}
			m.taskIn[t.Pred.Unit] = pin
			m.mustRun[t.Pred.Unit] = true
			po := PTrue
			if t.Pred.Unit < len(scn.Pred) {
				po = scn.Pred[t.Pred.Unit]
			}
			m.predOut[t.Pred.Unit] = po
			switch po {
			case PFalse:
				m.mustNot[t.Unit] = true
				for _, o := range t.Out {
					m.val[o.Key()] = 0
				}
				runTask = false
				// The task job still waits for the task's own inputs: if
				// those are dead the job is never dispatched, but the
				// outputs stay zero only if the flow survives; a dead
				// input means a hard failure exists anyway.
				if _, ok := gather(t.In); !ok {
					kill()
				}
			case PPanic:
				m.mustNot[t.Unit] = true
				runTask = false
				if _, ok := gather(t.In); !ok {
					kill()
				} else if t.Fallback {
					setFallback()
				} else {
					m.hard[t.Unit] = true
					m.hardPred[t.Unit] = true
					kill()
				}
			}
		}
		if !runTask {
			continue
		}
		in, ok := gather(t.In)
		if !ok {
			m.mustNot[t.Unit] = true
			kill()
			continue
		}
		m.taskIn[t.Unit] = in
		m.mustRun[t.Unit] = true
		o := Outcome{}
		if t.Unit < len(scn.Out) {
			o = scn.Out[t.Unit]
		}
		kind := o.K
		if kind == OErr && !t.Err {
			kind = OOk
		}
		switch kind {
		case OOk:
			for k, out := range t.Out {
				m.val[out.Key()] = OutTag(t.Unit, k, in)
			}
		default:
			if t.Fallback && kind != OGoexit { // FallbackWith cannot absorb an exited goroutine
				setFallback()
			} else {
				m.hard[t.Unit] = true
				kill()
			}
		}
	}
	for _, r := range s.Results {
		if m.dead[r.Key()] {
			m.resDead = true
		}
		m.results = append(m.results, m.val[r.Key()])
	}
	return m
}

// CheckFlow compares one execution of a generated flow with the reference
// interpreter. Findings whose property is not fixed by their nature are
// attributed to r.Mode, the property whose scenario domain produced the run.
func CheckFlow(r *Run) []Finding {
	e, s, scn := r.Env, r.Env.Spec, r.Env.Scn
	var out []Finding
	add := func(prop, f string, a ...interface{}) {
		out = append(out, Finding{prop, fmt.Sprintf(f, a...)})
	}
	if r.Panicked != nil {
		add("C04", "a panic propagated out of the directive: %v", r.Panicked)
		return out
	}
	m := interpretFlow(s, scn, e)
	cs := calls(e)
	cancelled := scn.CancelK != CNone
	anyHard := len(m.hard) > 0

	// --- invocation counts and inputs ---------------------------------------
	units := s.UnitKinds()
	for u, kind := range units {
		if kind != UTask && kind != UPred {
			continue
		}
		evs := cs[callKey{u, -1}]
		n := len(evs)
		switch {
		case n > 1:
			add(r.Mode, "%s unit %d was invoked %d times", kind, u, n)
		case m.mustNot[u] && n > 0:
			why := "a task it depends on failed"
			if kind == UTask {
				for i := range s.Tasks {
					if s.Tasks[i].Unit == u && s.Tasks[i].Pred != nil {
						switch m.predOut[s.Tasks[i].Pred.Unit] {
						case PFalse:
							why = "its predicate returned false"
						case PPanic:
							why = "its predicate panicked"
						}
					}
				}
			}
			add(r.Mode, "%s unit %d was invoked although %s", kind, u, why)
		case m.mustRun[u] && n == 0 && !anyHard && !cancelled:
			add(r.Mode, "%s unit %d was never invoked although nothing failed", kind, u)
		}
		if n >= 1 && m.mustRun[u] {
			if want := m.taskIn[u]; !tagsEq(evs[0].In, want) {
				add(r.Mode, "%s unit %d received inputs %v, its providers returned %v", kind, u, evs[0].In, want)
			}
		}
		for _, ev := range evs {
			if ev.HasC && !ev.CtxOK {
				add("C09", "%s unit %d received a context that is not the directive's context", kind, u)
			}
		}
	}

	// --- cancellation: nothing that could only start after the cancel is started -----
	switch scn.CancelK {
	case CPre:
		for k, evs := range cs {
			if len(evs) > 0 {
				add("C09", "%s unit %d was invoked although the flow's context was cancelled before the call", units[k.unit], k.unit)
			}
		}
	case CInUnit:
		// tasks (and predicates) that transitively depend on the cancelling unit
		canc := scn.CancelU
		down := map[int]bool{}
		provUnit := func(t TypeRef) (int, bool) { u, ok := m.provider[t.Key()]; return u, ok && u >= 0 }
		predOwner := map[int]int{} // pred unit -> task unit
		for i := range s.Tasks {
			if s.Tasks[i].Pred != nil {
				predOwner[s.Tasks[i].Pred.Unit] = s.Tasks[i].Unit
			}
		}
		for i := range s.Tasks {
			t := &s.Tasks[i]
			dep := func(ins []TypeRef) bool {
				for _, in := range ins {
					if pu, ok := provUnit(in); ok && (pu == canc || down[pu]) {
						return true
					}
				}
				return false
			}
			if t.Pred != nil {
				if dep(t.Pred.In) {
					down[t.Pred.Unit] = true
				}
				if t.Pred.Unit == canc || down[t.Pred.Unit] {
					down[t.Unit] = true
				}
			}
			if dep(t.In) {
				down[t.Unit] = true
			}
		}
		if len(cs[callKey{canc, -1}]) > 0 {
			for u := range down {
				if len(cs[callKey{u, -1}]) > 0 {
					add("C09", "%s unit %d was invoked although it could only start after unit %d had cancelled the context", units[u], u, canc)
				}
			}
			if r.Err == nil {
				add("C09", "the flow returned nil although unit %d cancelled its context while it was running", canc)
			}
		}
	}

	// --- ordering (C01 at the level of generated code) --------------------------
	endOf := func(u int) int64 {
		if evs := cs[callKey{u, -1}]; len(evs) > 0 {
			return evs[0].End
		}
		return 0
	}
	startOf := func(u int) int64 {
		if evs := cs[callKey{u, -1}]; len(evs) > 0 {
			return evs[0].Start
		}
		return 0
	}
	for i := range s.Tasks {
		t := &s.Tasks[i]
		chk := func(u int, ins []TypeRef, what string) {
			st := startOf(u)
			if st == 0 {
				return
			}
			for _, in := range ins {
				p, ok := m.provider[in.Key()]
				if !ok || p < 0 {
					continue
				}
				pe := endOf(p)
				// the provider may legitimately not have run (predicate false / fallback by predicate panic)
				if pe == 0 {
					if m.mustRun[p] {
						add("C01", "%s unit %d started although its provider task unit %d never ran", what, u, p)
					}
					continue
				}
				if pe > st {
					add("C01", "%s unit %d started (seq %d) before its provider task unit %d finished (seq %d)", what, u, st, p, pe)
				}
			}
		}
		chk(t.Unit, t.In, "task")
		if t.Pred != nil {
			chk(t.Pred.Unit, t.Pred.In, "predicate")
			if ps, ts := endOf(t.Pred.Unit), startOf(t.Unit); ts != 0 && (ps == 0 || ps > ts) {
				add("C01", "task unit %d started (seq %d) before its predicate unit %d finished (seq %d)", t.Unit, ts, t.Pred.Unit, ps)
			}
		}
	}

	// --- returned error and results -----------------------------------------------
	switch {
	case r.Err == nil:
		if anyHard {
			add(r.Mode, "the flow returned nil although task units %v failed", keys(m.hard))
		}
		if cancelled && (scn.CancelK == CPre) {
			add("C09", "the flow returned nil although its context was cancelled before the call")
		}
		if !anyHard {
			for k := range s.Results {
				got, ok := e.Results[k]
				if !ok {
					continue
				}
				if got != m.results[k] {
					add(r.Mode, "Results target %d (%s) holds tag %d, its provider returned %d", k, s.Results[k].Key(), got, m.results[k])
				}
			}
		}
	default:
		if !anyHard && !cancelled {
			add(r.Mode, "the flow returned an error although no task failed: %v", firstLine(r.Err))
		}
		ok := false
		for _, inj := range e.Injected {
			if matchInjected(r.Err, inj) {
				ok = true
			}
		}
		if !ok && cancelled && isCtxErr(r.Err) {
			ok = true
		}
		if !ok && (anyHard || cancelled) {
			var pe *cff.PanicError
			if errors.As(r.Err, &pe) {
				add("C04", "the flow returned a PanicError whose Value %#v is not the panic value of any function that panicked", pe.Value)
			} else {
				add("C07", "the flow returned %q which is not the error of any task that actually failed", firstLine(r.Err))
			}
		}
		for k := range s.Results {
			if got, ok := e.Results[k]; ok && got != e.SentinelTag(k) {
				add("C07", "the flow failed but Results target %d was modified (holds %d, sentinel %d)", k, got, e.SentinelTag(k))
			}
		}
	}

	if e.GateTimedOut.Load() {
		add("C11", "predicate unit %d did not run while task unit %d, which provides only an input of the predicated TASK (not of the predicate), was still running: the predicate is not evaluated as soon as its own inputs are available", scn.GateFor-1, scn.GateU-1)
	}

	if e.RdvTimedOut.Load() {
		add("C03", "only %d of the %d functions that are runnable from the start (no predicate, all inputs from cff.Params) were executing at the same time although the limit is %d and nothing else was running (every goroutine of the process was blocked): capacity is lost", e.RdvSeen.Load(), scn.Rdv, concLimit(s, scn))
	}

	// --- concurrency bound ------------------------------------------------------------
	if lim := concLimit(s, scn); lim > 0 && int(e.MaxInflight.Load()) > lim {
		add("C03", "%d user functions of one flow were executing at once; the limit is %d", e.MaxInflight.Load(), lim)
	}
	out = append(out, checkArgs(r)...)
	out = append(out, checkEmitters(r, m)...)
	return out
}

// ConcLimit is the concurrency limit the directive must be held to under the scenario.
func ConcLimit(s *Spec, scn *Scenario) int { return concLimit(s, scn) }

func concLimit(s *Spec, scn *Scenario) int {
	switch {
	case strings.HasPrefix(s.Conc, "const:"):
		n := 0
		fmt.Sscanf(s.Conc, "const:%d", &n)
		return n
	case s.Conc == "expr":
		if scn.N <= 0 {
			return 1
		}
		return scn.N
	}
	g := runtime.GOMAXPROCS(0)
	if g < 4 {
		g = 4
	}
	return g
}

func keys(m map[int]bool) []int {
	var k []int
	for x := range m {
		k = append(k, x)
	}
	sort.Ints(k)
	return k
}

func firstLine(err error) string {
	s := err.Error()
	if i := strings.IndexByte(s, '\n'); i >= 0 {
		s = s[:i]
	}
	if len(s) > 200 {
		s = s[:200]
	}
	return s
}

// CheckParallel compares one execution of a generated cff.Parallel with the
// reference semantics.
func CheckParallel(r *Run) []Finding {
	e, s, scn := r.Env, r.Env.Spec, r.Env.Scn
	var out []Finding
	add := func(prop, f string, a ...interface{}) {
		out = append(out, Finding{prop, fmt.Sprintf(f, a...)})
	}
	if r.Panicked != nil {
		add("C04", "a panic propagated out of the directive: %v", r.Panicked)
		return out
	}
	cs := calls(e)
	cancelled := scn.CancelK != CNone
	coe := s.COE == "true" || s.COE == "bctrue" || (s.COE == "expr" && scn.COE)
	canErr := s.UnitCanErr()
	fails := func(u, elem int) bool {
		o := e.outcomeFor(u, elem)
		return o.K == OPanic || o.K == OGoexit || (o.K == OErr && canErr[u])
	}
	type unitInst struct{ u, elem int }
	var failing []unitInst
	anyFail := false
	note := func(u, elem int) {
		if fails(u, elem) {
			failing = append(failing, unitInst{u, elem})
			anyFail = true
		}
	}
	for _, t := range s.PTasks {
		note(t.Unit, -1)
	}
	collFail := map[int]bool{} // unit of slice/map fn -> some element fails
	for _, sl := range s.Slices {
		for i := range e.Coll(sl.Coll) {
			if fails(sl.Unit, i) {
				collFail[sl.Unit] = true
			}
			note(sl.Unit, i)
		}
		if sl.End != nil && !collFail[sl.Unit] {
			note(sl.End.Unit, -1)
		}
	}
	for _, mp := range s.Maps {
		for i := range e.Coll(mp.Coll) {
			if fails(mp.Unit, i) {
				collFail[mp.Unit] = true
			}
			note(mp.Unit, i)
		}
		if mp.End != nil && !collFail[mp.Unit] {
			note(mp.End.Unit, -1)
		}
	}
	// must every non-blocked unit run? yes when nothing fails, or under COE.
	mustAll := !cancelled && (!anyFail || coe)

	one := func(kind string, u, elem int, must bool) (Event, bool) {
		evs := cs[callKey{u, elem}]
		switch {
		case len(evs) > 1:
			add(r.Mode, "%s unit %d element %d was invoked %d times", kind, u, elem, len(evs))
		case len(evs) == 0 && must:
			add(r.Mode, "%s unit %d element %d was never invoked although it should have run", kind, u, elem)
		}
		if len(evs) > 0 {
			if evs[0].HasC && !evs[0].CtxOK {
				add("C09", "%s unit %d received a context that is not the directive's context", kind, u)
			}
			return evs[0], true
		}
		return Event{}, false
	}
	for _, t := range s.PTasks {
		one("parallel task", t.Unit, -1, mustAll)
	}
	checkColl := func(kind string, u int, coll int, index bool, isMap bool, end *EndSpec) {
		tags := e.Coll(coll)
		var maxEnd int64
		all := true
		for i, tag := range tags {
			ev, ok := one(kind+" function", u, i, mustAll)
			if !ok {
				all = false
				continue
			}
			if ev.End > maxEnd {
				maxEnd = ev.End
			}
			if len(ev.In) != 1 || ev.In[0] != tag {
				add(r.Mode, "%s function unit %d element %d received value tag %v, the collection holds %d", kind, u, i, ev.In, tag)
			}
			if isMap {
				if ev.Key != MapKey(i) {
					add(r.Mode, "map function unit %d received key %q with the value stored under %q", u, ev.Key, MapKey(i))
				}
			} else if index && ev.Idx != i {
				add(r.Mode, "slice function unit %d received index %d with the element at index %d", u, ev.Idx, i)
			}
		}
		// calls for elements that do not exist
		for k, evs := range cs {
			if k.unit == u && (k.elem < 0 || k.elem >= len(tags)) {
				add(r.Mode, "%s function unit %d was invoked with a value that is not in the collection (tag %v)", kind, u, evs[0].In)
			}
		}
		if end == nil {
			return
		}
		evs := cs[callKey{end.Unit, -1}]
		switch {
		case len(evs) > 1:
			add(r.Mode, "%sEnd unit %d was invoked %d times", kind, end.Unit, len(evs))
		case len(evs) == 1 && collFail[u]:
			add(r.Mode, "%sEnd unit %d was invoked although an element call of its collection failed or panicked", kind, end.Unit)
		case len(evs) == 1 && !all:
			add(r.Mode, "%sEnd unit %d was invoked although not every element call of its collection ran", kind, end.Unit)
		case len(evs) == 1 && evs[0].Start < maxEnd:
			add(r.Mode, "%sEnd unit %d started (seq %d) before the last element call of its collection returned (seq %d)", kind, end.Unit, evs[0].Start, maxEnd)
		case len(evs) == 0 && mustAll && !collFail[u]:
			add(r.Mode, "%sEnd unit %d was never invoked although every element call succeeded", kind, end.Unit)
		}
	}
	for _, sl := range s.Slices {
		checkColl("slice", sl.Unit, sl.Coll, sl.Index, false, sl.End)
	}
	for _, mp := range s.Maps {
		checkColl("map", mp.Unit, mp.Coll, false, true, mp.End)
	}

	// --- cancellation --------------------------------------------------------------------
	switch scn.CancelK {
	case CPre:
		for k, evs := range cs {
			if len(evs) > 0 {
				add("C09", "unit %d was invoked although the parallel's context was cancelled before the call", k.unit)
			}
		}
	case CInUnit:
		ran := false
		for k, evs := range cs {
			if k.unit == scn.CancelU && len(evs) > 0 {
				ran = true
			}
		}
		if ran {
			// an End hook depends on every element call of its collection
			for _, sl := range s.Slices {
				if sl.End != nil && sl.Unit == scn.CancelU && len(cs[callKey{sl.End.Unit, -1}]) > 0 {
					add("C09", "SliceEnd unit %d was invoked although an element call of its collection had cancelled the context", sl.End.Unit)
				}
			}
			for _, mp := range s.Maps {
				if mp.End != nil && mp.Unit == scn.CancelU && len(cs[callKey{mp.End.Unit, -1}]) > 0 {
					add("C09", "MapEnd unit %d was invoked although an element call of its collection had cancelled the context", mp.End.Unit)
				}
			}
			if r.Err == nil {
				add("C09", "the parallel returned nil although unit %d cancelled its context while it was running", scn.CancelU)
			}
		}
	}

	// --- returned error -----------------------------------------------------------------
	switch {
	case r.Err == nil:
		if len(e.Injected) > 0 {
			add(r.Mode, "the parallel returned nil although %d functions failed or panicked", len(e.Injected))
		}
		if scn.CancelK == CPre {
			add("C09", "the parallel returned nil although its context was cancelled before the call")
		}
	case coe && !cancelled:
		entries := multierr.Errors(r.Err)
		used := make([]bool, len(entries))
		for _, inj := range e.Injected {
			found := false
			for i, en := range entries {
				if !used[i] && matchInjected(en, inj) {
					used[i], found = true, true
					break
				}
			}
			if !found {
				add(r.Mode, "unit %d element %d failed but its error is not an entry of the returned error (entries: %d)", inj.Unit, inj.Elem, len(entries))
			}
		}
		for i, en := range entries {
			if !used[i] {
				add(r.Mode, "the returned error has an entry that is not the error of any function that failed: %q", firstLine(en))
			}
			if strings.Contains(en.Error(), "job invalid") {
				add(r.Mode, "internal sentinel leaked into the returned error: %q", firstLine(en))
			}
		}
		if len(e.Injected) == 0 {
			add(r.Mode, "the parallel returned an error although nothing failed: %q", firstLine(r.Err))
		}
	default:
		ok := false
		for _, inj := range e.Injected {
			if matchInjected(r.Err, inj) {
				ok = true
			}
		}
		if !ok && cancelled {
			for _, en := range multierr.Errors(r.Err) {
				if isCtxErr(en) {
					ok = true
				}
			}
		}
		if !ok {
			var pe *cff.PanicError
			switch {
			case len(e.Injected) == 0 && !cancelled:
				add(r.Mode, "the parallel returned an error although nothing failed: %q", firstLine(r.Err))
			case errors.As(r.Err, &pe):
				add("C04", "the parallel returned a PanicError whose Value %#v is not the panic value of any function that panicked", pe.Value)
			default:
				add("C07", "the parallel returned %q which is not the error of any function that actually failed", firstLine(r.Err))
			}
		}
	}
	if e.RdvTimedOut.Load() {
		add("C03", "only %d of the %d functions that are runnable from the start were executing at the same time although the limit is %d and nothing else was running (every goroutine of the process was blocked): capacity is lost", e.RdvSeen.Load(), scn.Rdv, concLimit(s, scn))
	}

	if lim := concLimit(s, scn); lim > 0 && int(e.MaxInflight.Load()) > lim {
		add("C03", "%d user functions of one parallel were executing at once; the limit is %d", e.MaxInflight.Load(), lim)
	}
	out = append(out, checkArgs(r)...)
	out = append(out, checkEmitters(r, nil)...)
	return out
}

// CheckRace is the reduced oracle of the race flavour: the race detector is
// the judge; here only values that must be visible without further
// synchronisation are compared.
func CheckRace(r *Run) []Finding {
	e, s, scn := r.Env, r.Env.Spec, r.Env.Scn
	if r.Panicked != nil {
		return []Finding{{"C04", fmt.Sprintf("a panic propagated out of the directive: %v", r.Panicked)}}
	}
	if s.Kind != "flow" || r.Err != nil || scn.CancelK != CNone {
		return nil
	}
	m := interpretFlow(s, scn, e)
	if len(m.hard) > 0 {
		return nil
	}
	var out []Finding
	for k := range s.Results {
		if got, ok := e.Results[k]; ok && got != m.results[k] {
			out = append(out, Finding{"C12", fmt.Sprintf("the flow returned nil but Results target %d holds tag %d instead of %d: a task's value was not visible to the reader of Results", k, got, m.results[k])})
		}
	}
	return out
}

// Check dispatches on the directive kind.
func Check(r *Run) []Finding {
	if r.Env.Race {
		return CheckRace(r)
	}
	if r.Env.Spec.Kind == "flow" {
		return CheckFlow(r)
	}
	return CheckParallel(r)
}

// Differential compares a base-mode run with a modifier-mode run of the same
// flow under the same scenario (C20): same nil-ness, same Results, and an
// error that is the same injected fault.
func Differential(base, mod *Run) []Finding {
	var out []Finding
	add := func(f string, a ...interface{}) { out = append(out, Finding{"C20", fmt.Sprintf(f, a...)}) }
	if mod.Panicked != nil {
		add("modifier-mode code panicked: %v", mod.Panicked)
		return out
	}
	if base.Panicked != nil {
		return out // base-mode problem: C04's business
	}
	if (base.Err == nil) != (mod.Err == nil) {
		add("base-mode code returned %v, modifier-mode code returned %v", firstLineOrNil(base.Err), firstLineOrNil(mod.Err))
		return out
	}
	if base.Err == nil {
		for k := range base.Env.Spec.Results {
			if base.Env.Results[k] != mod.Env.Results[k] {
				add("Results target %d: base-mode code left tag %d, modifier-mode code %d", k, base.Env.Results[k], mod.Env.Results[k])
			}
		}
		return out
	}
	if base.Env.Scn.RootFail {
		unitOf := func(r *Run) int {
			for _, inj := range r.Env.Injected {
				if matchInjected(r.Err, inj) {
					return inj.Unit
				}
			}
			return -1
		}
		if ub, um := unitOf(base), unitOf(mod); ub >= 0 && um >= 0 && ub != um {
			add("one worker and only dependency-free tasks fail: base-mode code returned the error of task unit %d, modifier-mode code that of task unit %d (the first failing task in enqueue order ends the flow: the two modes enqueue in different orders)", ub, um)
		}
	}
	// both failed: the modifier-mode error must be one of ITS injected faults of
	// the same kind (unit) as some fault of the base run
	ok := false
	for _, inj := range mod.Env.Injected {
		if matchInjected(mod.Err, inj) {
			ok = true
		}
	}
	if !ok && !isCtxErr(mod.Err) {
		add("modifier-mode code returned %q which is not the error or PanicError of any task that failed", firstLine(mod.Err))
	}
	for k := range mod.Env.Spec.Results {
		if got, have := mod.Env.Results[k]; have && got != mod.Env.SentinelTag(k) {
			add("modifier-mode code failed but modified Results target %d", k)
		}
	}
	return out
}

// CheckPanicFirst judges the panic-first scenario: the Scheduler Loop of a
// fail-fast directive had recorded the panic of unit PFirst-1 before any
// other function could fail, so the returned error must carry it.
func CheckPanicFirst(r *Run) []Finding {
	e, scn := r.Env, r.Env.Scn
	if scn.PFirst == 0 || e.PFirstUnreleased.Load() {
		return nil
	}
	var inj *Injected
	e.mu.Lock()
	for i := range e.Injected {
		if e.Injected[i].Unit == scn.PFirst-1 {
			inj = &e.Injected[i]
		}
	}
	e.mu.Unlock()
	if inj == nil {
		return nil // the unit never ran
	}
	if r.Err != nil && matchInjected(r.Err, *inj) {
		return nil
	}
	var tl strings.Builder
	e.mu.Lock()
	for _, ev := range e.Events {
		if ev.Kind == "call" {
			fmt.Fprintf(&tl, " unit %d: start %d end %d;", ev.Unit, ev.Start, ev.End)
		}
	}
	e.mu.Unlock()
	return []Finding{{Prop: "C04", Msg: fmt.Sprintf("unit %d panicked and the Scheduler Loop had finished processing that result before any other function went on, yet the directive returned %q: errors.As yields no *cff.PanicError carrying the panic value (timeline:%s call %d return %d; hook results seen %d settled %d base %d)", scn.PFirst-1, firstLine(r.Err), tl.String(), e.CallSeq, e.RetSeq, HookSeen(), HookSettled(), e.pfBase.Load())}}
}

// RdvPlan returns, for a parallel directive, the units whose invocations have
// no dependency (tasks, element functions, and the End function of an empty or
// nil collection) and how many such invocations the scenario produces.
//
// For a flow: the tasks without a predicate whose inputs all come from
// cff.Params, and the predicates whose inputs all come from cff.Params.
func RdvPlan(s *Spec, scn *Scenario) (units []int, n int) {
	if s.Kind == "flow" {
		param := map[string]bool{}
		for _, p := range s.Params {
			param[p.Key()] = true
		}
		free := func(in []TypeRef) bool {
			for _, x := range in {
				if !param[x.Key()] {
					return false
				}
			}
			return true
		}
		for _, t := range s.Tasks {
			switch {
			case t.Pred != nil && free(t.Pred.In):
				units = append(units, t.Pred.Unit)
				n++
			case t.Pred == nil && free(t.In):
				units = append(units, t.Unit)
				n++
			}
		}
		return units, n
	}
	if s.Kind != "parallel" {
		return nil, 0
	}
	for _, pt := range s.PTasks {
		units = append(units, pt.Unit)
		n++
	}
	coll := func(unit, c int, end *EndSpec) {
		l := 0
		if c < len(scn.Colls) {
			l = len(scn.Colls[c])
		}
		if l > 0 {
			units = append(units, unit)
			n += l
		} else if end != nil {
			units = append(units, end.Unit)
			n++
		}
	}
	for _, sl := range s.Slices {
		coll(sl.Unit, sl.Coll, sl.End)
	}
	for _, mp := range s.Maps {
		coll(mp.Unit, mp.Coll, mp.End)
	}
	return units, n
}

// GateCandidates lists (gated provider unit, predicate unit) pairs usable for
// the C11 gate scenario: the provider q produces an input of a predicated
// task t that is not an input of t's predicate, and none of the predicate's
// inputs depends (transitively) on q.
func GateCandidates(s *Spec) [][2]int {
	provider := map[string]int{} // type -> task index
	for i, t := range s.Tasks {
		for _, o := range t.Out {
			provider[o.Key()] = i
		}
	}
	// ancestors[i] = set of task indices task i transitively depends on (incl. via predicates)
	anc := make([]map[int]bool, len(s.Tasks))
	var walk func(i int) map[int]bool
	walk = func(i int) map[int]bool {
		if anc[i] != nil {
			return anc[i]
		}
		m := map[int]bool{}
		anc[i] = m
		ins := append([]TypeRef{}, s.Tasks[i].In...)
		if s.Tasks[i].Pred != nil {
			ins = append(ins, s.Tasks[i].Pred.In...)
		}
		for _, in := range ins {
			if p, ok := provider[in.Key()]; ok && p != i {
				m[p] = true
				for k := range walk(p) {
					m[k] = true
				}
			}
		}
		return m
	}
	var out [][2]int
	for i, t := range s.Tasks {
		if t.Pred == nil {
			continue
		}
		predIn := map[string]bool{}
		for _, in := range t.Pred.In {
			predIn[in.Key()] = true
		}
		for _, in := range t.In {
			if predIn[in.Key()] {
				continue
			}
			q, ok := provider[in.Key()]
			if !ok || q == i {
				continue
			}
			bad := false
			for _, pin := range t.Pred.In {
				if pp, ok := provider[pin.Key()]; ok && (pp == q || walk(pp)[q]) {
					bad = true
				}
			}
			// the gated provider itself must not wait for the predicated task
			if walk(q)[i] {
				bad = true
			}
			if !bad {
				out = append(out, [2]int{s.Tasks[q].Unit, t.Pred.Unit})
			}
		}
	}
	return out
}
