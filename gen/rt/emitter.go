package rt

import (
	"context"
	"time"

	"go.uber.org/cff"
)

var procBase = cff.EmitterStack(cff.NopEmitter(), cff.NopEmitter(), cff.NopEmitter())

// ProcBase returns the process-wide base emitter stack (three no-op
// emitters; built once, so its slice has spare capacity).
func ProcBase() cff.Emitter { return procBase }

// RecEmitter is a cff.Emitter that records every event in the Env log.
type RecEmitter struct {
	env *Env
	idx int
}

// Em returns the i-th recording emitter of this execution.
func (e *Env) Em(i int) cff.Emitter { return e.Ems[i] }

func (r *RecEmitter) rec(name, ev string, err error, pv interface{}) {
	if r.env.Race {
		return
	}
	e := Event{Kind: "emit", Unit: -1, Elem: -1, Idx: -1, Em: r.idx, Name: name, Ev: ev, Err: err, PV: pv, Start: Seq(), Gid: Gid()}
	if err != nil {
		e.ErrS = err.Error()
	}
	r.env.mu.Lock()
	r.env.Events = append(r.env.Events, e)
	r.env.mu.Unlock()
}

type recTask struct {
	r    *RecEmitter
	name string
}

func (t recTask) TaskSuccess(context.Context)            { t.r.rec(t.name, "TaskSuccess", nil, nil) }
func (t recTask) TaskError(_ context.Context, err error) { t.r.rec(t.name, "TaskError", err, nil) }
func (t recTask) TaskErrorRecovered(_ context.Context, err error) {
	t.r.rec(t.name, "TaskErrorRecovered", err, nil)
}
func (t recTask) TaskSkipped(_ context.Context, err error)    { t.r.rec(t.name, "TaskSkipped", err, nil) }
func (t recTask) TaskPanic(_ context.Context, pv interface{}) { t.r.rec(t.name, "TaskPanic", nil, pv) }
func (t recTask) TaskPanicRecovered(_ context.Context, pv interface{}) {
	t.r.rec(t.name, "TaskPanicRecovered", nil, pv)
}
func (t recTask) TaskDone(context.Context, time.Duration) { t.r.rec(t.name, "TaskDone", nil, nil) }

type recFlow struct {
	r    *RecEmitter
	name string
}

func (f recFlow) FlowSuccess(context.Context)             { f.r.rec(f.name, "FlowSuccess", nil, nil) }
func (f recFlow) FlowError(_ context.Context, err error)  { f.r.rec(f.name, "FlowError", err, nil) }
func (f recFlow) FlowDone(context.Context, time.Duration) { f.r.rec(f.name, "FlowDone", nil, nil) }

type recPar struct {
	r    *RecEmitter
	name string
}

func (f recPar) ParallelSuccess(context.Context) { f.r.rec(f.name, "ParallelSuccess", nil, nil) }
func (f recPar) ParallelError(_ context.Context, err error) {
	f.r.rec(f.name, "ParallelError", err, nil)
}
func (f recPar) ParallelDone(context.Context, time.Duration) {
	f.r.rec(f.name, "ParallelDone", nil, nil)
}

type recSched struct{ r *RecEmitter }

func (s recSched) EmitScheduler(cff.SchedulerState) {}

// TaskInit implements cff.Emitter.
func (r *RecEmitter) TaskInit(t *cff.TaskInfo, _ *cff.DirectiveInfo) cff.TaskEmitter {
	return recTask{r, t.Name}
}

// FlowInit implements cff.Emitter.
func (r *RecEmitter) FlowInit(f *cff.FlowInfo) cff.FlowEmitter { return recFlow{r, f.Name} }

// ParallelInit implements cff.Emitter.
func (r *RecEmitter) ParallelInit(p *cff.ParallelInfo) cff.ParallelEmitter {
	return recPar{r, p.Name}
}

// SchedulerInit implements cff.Emitter.
func (r *RecEmitter) SchedulerInit(*cff.SchedulerInfo) cff.SchedulerEmitter { return recSched{r} }
