// Package rt is the runtime library shared by the program generator, the
// generated programs and the inner driver: the abstract program model
// (Spec), scenarios, the per-execution environment (Env) with its event log,
// recording emitters, and the reference interpreters used as oracles.
//
// The package is copied verbatim into every generated case module, which
// declares "go 1.19": keep it free of newer language features.
package rt

import (
	"encoding/json"
	"fmt"
	"strings"
)

// TypeRef names one value type of the generated package.
//
//	T  local struct          P  pointer to local struct    N  named uint64
//	S  named string          L  slice of local struct      M  map[string]local struct
//	G  generic instance      W  type of imported pkg ext   U  type of pkg ext2 (not imported by program files)
//	I  local interface       int / string (builtin)
type TypeRef struct {
	K string `json:"k"`
	I int    `json:"i,omitempty"`
}

// Key identifies the type.
func (t TypeRef) Key() string { return fmt.Sprintf("%s%d", t.K, t.I) }

// Go renders the type as written inside package p.
func (t TypeRef) Go() string {
	switch t.K {
	case "T":
		return fmt.Sprintf("T%d", t.I)
	case "P":
		return fmt.Sprintf("*T%d", t.I)
	case "N":
		return fmt.Sprintf("N%d", t.I)
	case "S":
		return fmt.Sprintf("S%d", t.I)
	case "L":
		return fmt.Sprintf("[]T%d", t.I)
	case "M":
		return fmt.Sprintf("map[string]T%d", t.I)
	case "G":
		return fmt.Sprintf("G[T%d]", t.I)
	case "W":
		return fmt.Sprintf("ext.W%d", t.I)
	case "U":
		return fmt.Sprintf("ext2.U%d", t.I)
	case "I":
		return fmt.Sprintf("I%d", t.I)
	case "int":
		return "int"
	case "string":
		return "string"
	}
	panic("bad type kind " + t.K)
}

// Suffix is the identifier-safe name used for mk_/tag_ helpers.
func (t TypeRef) Suffix() string {
	switch t.K {
	case "int", "string":
		return t.K
	}
	return fmt.Sprintf("%s%d", t.K, t.I)
}

// NeedsPkg returns the helper package a literal spelling of this type needs.
func (t TypeRef) NeedsPkg() string {
	switch t.K {
	case "W":
		return "ext"
	case "U":
		return "ext2"
	}
	return ""
}

// Unit kinds: every user function of a directive is one unit.
const (
	UTask     = "task"     // flow task
	UPred     = "pred"     // predicate of a flow task
	UPTask    = "ptask"    // parallel task (Task or Tasks member)
	USliceFn  = "slicefn"  // per-element function of cff.Slice
	UMapFn    = "mapfn"    // per-entry function of cff.Map
	USliceEnd = "sliceend" // cff.SliceEnd function
	UMapEnd   = "mapend"   // cff.MapEnd function
)

// PredSpec is a predicate attached to a task.
type PredSpec struct {
	Unit int       `json:"unit"`
	In   []TypeRef `json:"in,omitempty"`
	Ctx  bool      `json:"ctx,omitempty"`
	Sp   string    `json:"sp,omitempty"`
}

// TaskSpec is one cff.Task of a flow.
type TaskSpec struct {
	Unit       int       `json:"unit"`
	In         []TypeRef `json:"in,omitempty"`
	Out        []TypeRef `json:"out,omitempty"`
	Ctx        bool      `json:"ctx,omitempty"`
	Err        bool      `json:"err,omitempty"`
	Pred       *PredSpec `json:"pred,omitempty"`
	Fallback   bool      `json:"fallback,omitempty"`
	Invoke     bool      `json:"invoke,omitempty"`
	Instrument bool      `json:"instrument,omitempty"`
	Sp         string    `json:"sp,omitempty"` // spelling of the function expression
}

// EndSpec is a SliceEnd / MapEnd function.
type EndSpec struct {
	Unit int  `json:"unit"`
	Ctx  bool `json:"ctx,omitempty"`
	Err  bool `json:"err,omitempty"`
}

// PTaskSpec is a parallel task.
type PTaskSpec struct {
	Unit       int    `json:"unit"`
	Ctx        bool   `json:"ctx,omitempty"`
	Err        bool   `json:"err,omitempty"`
	Group      int    `json:"group"` // tasks with the same group >=0 are written as one cff.Tasks(...); -1 = cff.Task
	Instrument bool   `json:"instrument,omitempty"`
	Sp         string `json:"sp,omitempty"`
}

// SliceSpec is a cff.Slice.
type SliceSpec struct {
	Unit  int      `json:"unit"`
	Coll  int      `json:"coll"` // index of the collection in the scenario
	Elem  TypeRef  `json:"elem"`
	Index bool     `json:"index,omitempty"`
	Ctx   bool     `json:"ctx,omitempty"`
	Err   bool     `json:"err,omitempty"`
	Named bool     `json:"named,omitempty"` // collection has a named slice type
	End   *EndSpec `json:"end,omitempty"`
	Sp    string   `json:"sp,omitempty"`
}

// MapSpec is a cff.Map. KeyK selects the key type: "" string, "int", or
// "struct" (a comparable struct declared in the support file); Named makes
// the collection a value of a declared map type.
type MapSpec struct {
	Unit  int      `json:"unit"`
	Coll  int      `json:"coll"`
	Elem  TypeRef  `json:"elem"`
	KeyK  string   `json:"keyk,omitempty"`
	Named bool     `json:"named,omitempty"`
	Ctx   bool     `json:"ctx,omitempty"`
	Err   bool     `json:"err,omitempty"`
	End   *EndSpec `json:"end,omitempty"`
	Sp    string   `json:"sp,omitempty"`
}

// Spec describes one directive (a flow or a parallel).
type Spec struct {
	Name string `json:"name"`
	Kind string `json:"kind"` // "flow" | "parallel"
	File string `json:"file,omitempty"`

	// flow
	Params  []TypeRef  `json:"params,omitempty"`
	Results []TypeRef  `json:"results,omitempty"`
	Tasks   []TaskSpec `json:"tasks,omitempty"`

	// parallel
	PTasks []PTaskSpec `json:"ptasks,omitempty"`
	Slices []SliceSpec `json:"slices,omitempty"`
	Maps   []MapSpec   `json:"maps,omitempty"`
	COE    string      `json:"coe,omitempty"` // "" | "true" | "false" | "expr"

	Conc        string `json:"conc,omitempty"` // "" | "const:<k>" | "expr"
	InstrumentD bool   `json:"instrumentd,omitempty"`
	Emitters    int    `json:"emitters,omitempty"` // number of recording emitters passed
	EmitNest    bool   `json:"emitnest,omitempty"` // some of them wrapped in nested cff.EmitterStack
	// EmitShared: emitters 0..2 form a shared nested stack from which two
	// stacks are derived: the directive's (with emitter 3) and an unused
	// sibling (with a decoy recorder, index Emitters, that must stay silent).
	EmitShared bool `json:"emitshared,omitempty"`
	AutoInstr  bool `json:"autoinstr,omitempty"`
	// AutoNames maps a task unit to the name -auto-instrument implies for it
	// ("<file>.<line of the task function expression>"), filled by the renderer.
	AutoNames map[int]string `json:"autonames,omitempty"`

	Order  []int  `json:"order,omitempty"`  // listing order of the options (a permutation)
	Units  int    `json:"units"`            // number of units
	Colls  int    `json:"colls,omitempty"`  // number of collections
	Wrap   bool   `json:"wrap,omitempty"`   // argument expressions wrapped in rt.Arg (C15)
	NArgs  int    `json:"nargs,omitempty"`  // number of wrapped argument expressions, in source order
	Shadow bool   `json:"shadow,omitempty"` // enclosing function declares locals named like generated identifiers and uses them in arguments
	Bare   bool   `json:"bare,omitempty"`   // argument values are first stored in locals named like generated identifiers and passed as bare identifiers
	Encl   string `json:"encl,omitempty"`   // "" | closure | generic: shape of the enclosing function
	Paren  bool   `json:"paren,omitempty"`  // top-level options written in parentheses
	Extra  int    `json:"extra,omitempty"`  // number of trivial extra directives in the same function (1: before, 2: before and after)
	Stmt   string `json:"stmt,omitempty"`   // statement holding the directive: "" (assignment) | ifinit | switch | arg | field | tuple

	// ModSubset marks flows inside the modifier-mode supported subset.
	ModSubset bool `json:"modsubset,omitempty"`
}

// UnitKind returns the kind and a description of every unit.
func (s *Spec) UnitKinds() []string {
	k := make([]string, s.Units)
	for _, t := range s.Tasks {
		k[t.Unit] = UTask
		if t.Pred != nil {
			k[t.Pred.Unit] = UPred
		}
	}
	for _, t := range s.PTasks {
		k[t.Unit] = UPTask
	}
	for _, t := range s.Slices {
		k[t.Unit] = USliceFn
		if t.End != nil {
			k[t.End.Unit] = USliceEnd
		}
	}
	for _, t := range s.Maps {
		k[t.Unit] = UMapFn
		if t.End != nil {
			k[t.End.Unit] = UMapEnd
		}
	}
	return k
}

// UnitCanErr reports, per unit, whether its signature has an error result.
func (s *Spec) UnitCanErr() []bool {
	k := make([]bool, s.Units)
	for _, t := range s.Tasks {
		k[t.Unit] = t.Err
	}
	for _, t := range s.PTasks {
		k[t.Unit] = t.Err
	}
	for _, t := range s.Slices {
		k[t.Unit] = t.Err
		if t.End != nil {
			k[t.End.Unit] = t.End.Err
		}
	}
	for _, t := range s.Maps {
		k[t.Unit] = t.Err
		if t.End != nil {
			k[t.End.Unit] = t.End.Err
		}
	}
	return k
}

// JSON renders the spec.
func (s *Spec) JSON() string {
	b, _ := json.Marshal(s)
	return string(b)
}

// Summary is a short human-readable description.
func (s *Spec) Summary() string {
	var sb strings.Builder
	fmt.Fprintf(&sb, "%s %s", s.Kind, s.Name)
	if s.Kind == "flow" {
		fmt.Fprintf(&sb, " params=%d results=%d tasks=%d", len(s.Params), len(s.Results), len(s.Tasks))
	} else {
		fmt.Fprintf(&sb, " ptasks=%d slices=%d maps=%d coe=%q", len(s.PTasks), len(s.Slices), len(s.Maps), s.COE)
	}
	return sb.String()
}
