package rt

import (
	"bytes"
	"runtime"
	"strconv"
	"strings"
	"sync"
	"time"
)

var (
	stackBuf = make([]byte, 1<<20)
	stackMu  sync.Mutex
)

// GInfo describes one goroutine of a dump.
type GInfo struct {
	ID    int64
	State string
	Sched bool
	Text  string
	// Creator is the function of the "created by" line, Parent the goroutine
	// it ran in (0 when the dump does not say).
	Creator string
	Parent  int64
}

// CreatedFor counts the goroutines of a dump that exist on behalf of a
// directive called from goroutine caller: those started by the scheduler, the
// cff runtime or generated code, and - transitively - those started from
// inside such a goroutine or from the caller's goroutine by anything that is
// not the harness (for example the watcher goroutine context.WithCancel
// starts for a parent context that is not one of the standard library's).
func CreatedFor(gs []GInfo, caller int64) int {
	n, _ := CreatedForInfo(gs, caller, nil)
	return n
}

// AllIDs returns the ids of all goroutines that exist now.
func AllIDs() map[int64]bool {
	m := map[int64]bool{}
	for _, g := range DumpGoroutines() {
		m[g.ID] = true
	}
	return m
}

// CreatedForInfo is CreatedFor plus a description of the counted goroutines
// (creator, state and top frame of each).
// Goroutines listed in base existed before the directive was called (left
// behind by an earlier, abandoned execution) and are never counted.
func CreatedForInfo(gs []GInfo, caller int64, base map[int64]bool) (int, string) {
	counted := map[int64]bool{}
	harness := func(c string) bool {
		return strings.HasPrefix(c, "vinner") || strings.HasPrefix(c, "vcase/rt") ||
			strings.HasPrefix(c, "testing.") || strings.HasPrefix(c, "pgregory.net/")
	}
	for _, g := range gs {
		if !base[g.ID] && (strings.HasPrefix(g.Creator, "go.uber.org/cff") || strings.HasPrefix(g.Creator, "vcase/p")) {
			counted[g.ID] = true
		}
	}
	for changed := true; changed; {
		changed = false
		for _, g := range gs {
			if counted[g.ID] || g.Parent == 0 || base[g.ID] || harness(g.Creator) {
				continue
			}
			if counted[g.Parent] || (caller != 0 && g.Parent == caller) {
				counted[g.ID] = true
				changed = true
			}
		}
	}
	var sb strings.Builder
	for _, g := range gs {
		if !counted[g.ID] {
			continue
		}
		top := ""
		if ls := strings.SplitN(g.Text, "\n", 3); len(ls) >= 2 {
			top = ls[1]
		}
		sb.WriteString("  g" + strconv.FormatInt(g.ID, 10) + " [" + g.State + "] " + top + " <- " + g.Creator + " in g" + strconv.FormatInt(g.Parent, 10) + "\n")
	}
	return len(counted), sb.String()
}

// DumpGoroutines parses runtime.Stack(all).
func DumpGoroutines() []GInfo {
	stackMu.Lock()
	defer stackMu.Unlock()
	for {
		n := runtime.Stack(stackBuf, true)
		if n < len(stackBuf) {
			return parseDump(stackBuf[:n])
		}
		stackBuf = make([]byte, 2*len(stackBuf))
	}
}

func parseDump(b []byte) []GInfo {
	var out []GInfo
	for _, blk := range bytes.Split(b, []byte("\n\n")) {
		s := string(blk)
		if !strings.HasPrefix(s, "goroutine ") {
			continue
		}
		head := s[len("goroutine "):]
		sp := strings.IndexByte(head, ' ')
		if sp < 0 {
			continue
		}
		id, _ := strconv.ParseInt(head[:sp], 10, 64)
		state := ""
		if lb := strings.IndexByte(head, '['); lb >= 0 {
			if rb := strings.IndexByte(head[lb:], ']'); rb >= 0 {
				state = head[lb+1 : lb+rb]
			}
		}
		g := GInfo{ID: id, State: state, Text: s}
		if cb := strings.LastIndex(s, "\ncreated by "); cb >= 0 {
			line := s[cb+len("\ncreated by "):]
			if nl := strings.IndexByte(line, '\n'); nl >= 0 {
				line = line[:nl]
			}
			if in := strings.Index(line, " in goroutine "); in >= 0 {
				g.Parent, _ = strconv.ParseInt(strings.TrimSpace(line[in+len(" in goroutine "):]), 10, 64)
				line = line[:in]
			}
			g.Creator = line
		}
		g.Sched = strings.Contains(s, "cff/scheduler.worker") || strings.Contains(s, "cff/scheduler.(*Scheduler).run") ||
			strings.Contains(s, "cff/scheduler.Config.New")
		out = append(out, g)
	}
	return out
}

// SchedIDs returns the ids of goroutines currently running scheduler code.
func SchedIDs() map[int64]bool {
	m := map[int64]bool{}
	for _, g := range DumpGoroutines() {
		if g.Sched {
			m[g.ID] = true
		}
	}
	return m
}

func blockedState(st string) bool {
	st = strings.SplitN(st, ",", 2)[0]
	return strings.HasPrefix(st, "chan ") || strings.HasPrefix(st, "select") || strings.HasPrefix(st, "sync.") || st == "semacquire"
}

// AwaitNoSched polls until no goroutine outside base runs scheduler code.
// It returns "" when that happened, a dump when the remaining goroutines are
// confirmed blocked for good (two identical censuses, nothing runnable), and
// ok=false when neither could be established before the deadline.
func AwaitNoSched(base map[int64]bool, deadline time.Duration) (leak string, ok bool) {
	start := time.Now()
	sleep := 5 * time.Microsecond
	for {
		n := 0
		for _, g := range DumpGoroutines() {
			if g.Sched && !base[g.ID] {
				n++
			}
		}
		if n == 0 {
			return "", true
		}
		el := time.Since(start)
		if el > 5*time.Millisecond {
			if d, ok := stableBlocked(base); ok {
				return d, true
			}
		}
		if el > deadline {
			return "", false
		}
		time.Sleep(sleep)
		if sleep < 2*time.Millisecond {
			sleep *= 2
		}
	}
}

// WhyNotStuck names the first goroutine that keeps stableBlocked from
// declaring the process stuck (diagnostics of inconclusive runs).
func WhyNotStuck() string {
	for i, g := range DumpGoroutines() {
		if i == 0 {
			continue
		}
		st := strings.SplitN(g.State, ",", 2)[0]
		if st == "running" || st == "runnable" || st == "syscall" || st == "sleep" {
			ls := strings.SplitN(g.Text, "\n", 4)
			if len(ls) > 3 {
				ls = ls[:3]
			}
			return strings.Join(ls, " | ")
		}
		if g.Sched && !blockedState(g.State) {
			return "scheduler goroutine not blocked: " + strings.SplitN(g.Text, "\n", 2)[0]
		}
	}
	return "no scheduler goroutine, or the state changed between two censuses"
}

func stableBlocked(base map[int64]bool) (string, bool) {
	snap := func() (map[int64]string, string, bool) {
		m := map[int64]string{}
		var sb strings.Builder
		for i, g := range DumpGoroutines() {
			if i == 0 {
				continue
			}
			st := strings.SplitN(g.State, ",", 2)[0]
			if st == "running" || st == "runnable" || st == "syscall" || st == "sleep" {
				return nil, "", false
			}
			if g.Sched && !base[g.ID] {
				if !blockedState(g.State) {
					return nil, "", false
				}
				m[g.ID] = st
				sb.WriteString(g.Text + "\n\n")
			}
		}
		return m, sb.String(), len(m) > 0
	}
	a, _, ok := snap()
	if !ok {
		return "", false
	}
	time.Sleep(300 * time.Millisecond)
	b, txt, ok := snap()
	if !ok || len(a) != len(b) {
		return "", false
	}
	for id, st := range a {
		if b[id] != st {
			return "", false
		}
	}
	return txt, true
}

// HangDump decides whether the whole process is stuck for good: two
// censuses 300ms apart in which no goroutine (other than the caller and the
// runtime's signal plumbing) is running, runnable, sleeping or in a syscall,
// and every goroutine keeps its state. It returns the stacks of the
// goroutines that are inside generated code, the cff runtime or the
// scheduler. Used when a directive has not returned: a wall-clock timeout
// alone is never a verdict.
func HangDump() (string, bool) { return stableDump(true) }

// StableDump is HangDump without the filter: the stacks of all goroutines.
func StableDump() (string, bool) { return stableDump(false) }

func stableDump(onlyCff bool) (string, bool) {
	snap := func() (map[int64]string, string, bool) {
		m := map[int64]string{}
		var sb strings.Builder
		for i, g := range DumpGoroutines() {
			if i == 0 {
				continue // the calling goroutine
			}
			if strings.Contains(g.Text, "os/signal.") || strings.Contains(g.Text, "runtime.ensureSigM") {
				continue
			}
			st := strings.SplitN(g.State, ",", 2)[0]
			if st == "running" || st == "runnable" || st == "syscall" || st == "sleep" {
				return nil, "", false
			}
			m[g.ID] = st
			if !onlyCff || strings.Contains(g.Text, "vcase/") || strings.Contains(g.Text, "go.uber.org/cff") {
				sb.WriteString(g.Text + "\n\n")
			}
		}
		return m, sb.String(), true
	}
	a, _, ok := snap()
	if !ok {
		return "", false
	}
	time.Sleep(300 * time.Millisecond)
	b, txt, ok := snap()
	if !ok || len(a) != len(b) || txt == "" {
		return "", false
	}
	for id, st := range a {
		if b[id] != st {
			return "", false
		}
	}
	return txt, true
}
