//go:build !verif

package rt

// HooksOn reports whether the scheduler's verification hook points are
// compiled in (build tag verif).
const HooksOn = false

// InstallHooks does nothing without the verif build tag.
func InstallHooks() {}

// SetPerturb does nothing without the verif build tag.
func SetPerturb(bool) {}

// HookSeen returns 0 without the verif build tag.
func HookSeen() int64 { return 0 }

// HookSettled returns 0 without the verif build tag.
func HookSettled() int64 { return 0 }
