package rt

import (
	"fmt"
	"sort"
	"strings"
)

// checkArgs is the C15 oracle: every wrapped argument expression was
// evaluated exactly once, in source order, on the calling goroutine, before
// any user function started.
func checkArgs(r *Run) []Finding {
	e, s := r.Env, r.Env.Spec
	if !s.Wrap {
		return nil
	}
	var out []Finding
	add := func(f string, a ...interface{}) { out = append(out, Finding{"C15", fmt.Sprintf(f, a...)}) }
	var got []int
	for _, ev := range e.ArgLog {
		got = append(got, ev.Unit)
	}
	want := make([]int, s.NArgs)
	for i := range want {
		want[i] = i
	}
	same := len(got) == len(want)
	if same {
		for i := range got {
			if got[i] != want[i] {
				same = false
			}
		}
	}
	if !same {
		add("argument expressions were evaluated in the order %v; source order is 0..%d, each exactly once", got, s.NArgs-1)
	}
	firstCall := int64(0)
	for _, ev := range e.Events {
		if ev.Kind == "call" && (firstCall == 0 || ev.Start < firstCall) {
			firstCall = ev.Start
		}
	}
	for _, ev := range e.ArgLog {
		if ev.Gid != e.CallGid {
			add("argument expression %d was evaluated on goroutine %d, not on the calling goroutine %d", ev.Unit, ev.Gid, e.CallGid)
		}
		if firstCall != 0 && ev.Start > firstCall {
			add("argument expression %d was evaluated (seq %d) after a user function had started (seq %d)", ev.Unit, ev.Start, firstCall)
		}
	}
	return out
}

func sameErr(a, b error) (eq bool) {
	defer func() {
		if recover() != nil {
			eq = false
		}
	}()
	return a == b
}

// TaskName is the cff.Instrument name the renderer gives to a unit.
func TaskName(unit int) string { return fmt.Sprintf("t%d", unit) }

// DirName is the InstrumentFlow / InstrumentParallel name.
func DirName(s *Spec) string { return "d_" + s.Name }

// checkEmitters is the C18 oracle.
func checkEmitters(r *Run, fm *flowModel) []Finding {
	e, s := r.Env, r.Env.Spec
	if s.Emitters == 0 {
		return nil
	}
	var out []Finding
	add := func(f string, a ...interface{}) { out = append(out, Finding{"C18", fmt.Sprintf(f, a...)}) }
	per := make([][]Event, s.Emitters)
	decoy := 0
	for _, ev := range e.Events {
		if ev.Kind == "emit" && ev.Em < len(per) {
			per[ev.Em] = append(per[ev.Em], ev)
		} else if ev.Kind == "emit" {
			decoy++
		}
	}
	if decoy > 0 {
		add("an emitter that is not part of the directive's emitter stack (it only belongs to a sibling stack derived from the same nested EmitterStack) received %d events", decoy)
	}
	cs := calls(e)
	dirPrefix := "Flow"
	if s.Kind == "parallel" {
		dirPrefix = "Parallel"
	}
	// which units are instrumented, under which name
	type inst struct {
		unit     int
		name     string
		fallback bool
	}
	var insts []inst
	for _, t := range s.Tasks {
		switch {
		case t.Instrument:
			insts = append(insts, inst{t.Unit, TaskName(t.Unit), t.Fallback})
		case s.AutoInstr && s.InstrumentD && s.AutoNames[t.Unit] != "":
			// -auto-instrument: every task of an instrumented flow is
			// instrumented under an implied name
			insts = append(insts, inst{t.Unit, s.AutoNames[t.Unit], t.Fallback})
		}
	}
	for _, t := range s.PTasks {
		if t.Instrument {
			insts = append(insts, inst{t.Unit, TaskName(t.Unit), false})
		}
	}
	sig := func(evs []Event) string {
		var l []string
		for _, ev := range evs {
			l = append(l, ev.Name+"/"+ev.Ev+"/"+ev.ErrS+"/"+fmt.Sprint(ev.PV))
		}
		sort.Strings(l)
		return strings.Join(l, "\n")
	}
	for i, evs := range per {
		if i > 0 && sig(evs) != sig(per[0]) {
			add("emitter %d of the stack received a different multiset of events than emitter 0:\n%s\n--- vs ---\n%s", i, sig(evs), sig(per[0]))
		}
	}
	for i, evs := range per {
		// ---- directive level -------------------------------------------------
		var succ, fail, done []Event
		for _, ev := range evs {
			switch ev.Ev {
			case dirPrefix + "Success":
				succ = append(succ, ev)
			case dirPrefix + "Error":
				fail = append(fail, ev)
			case dirPrefix + "Done":
				done = append(done, ev)
			}
		}
		if s.InstrumentD {
			if len(succ)+len(fail) != 1 {
				add("emitter %d: expected exactly one of %sSuccess/%sError, got %d/%d", i, dirPrefix, dirPrefix, len(succ), len(fail))
			}
			if len(done) != 1 {
				add("emitter %d: expected exactly one %sDone, got %d", i, dirPrefix, len(done))
			}
			if r.Err == nil && len(fail) > 0 {
				add("emitter %d: %sError emitted although the directive returned nil", i, dirPrefix)
			}
			if r.Err != nil && len(succ) > 0 {
				add("emitter %d: %sSuccess emitted although the directive returned an error", i, dirPrefix)
			}
			for _, ev := range fail {
				if !sameErr(ev.Err, r.Err) {
					add("emitter %d: %sError carried %q, the directive returned %q", i, dirPrefix, ev.ErrS, firstLineOrNil(r.Err))
				}
			}
			if len(done) == 1 {
				for _, ev := range append(succ, fail...) {
					if ev.Start > done[0].Start {
						add("emitter %d: %s emitted after %sDone", i, ev.Ev, dirPrefix)
					}
				}
			}
			for _, ev := range append(append(succ, fail...), done...) {
				if ev.Name != DirName(s) {
					add("emitter %d: %s carried directive name %q, want %q", i, ev.Ev, ev.Name, DirName(s))
				}
			}
		} else if len(succ)+len(fail)+len(done) > 0 {
			add("emitter %d: directive-level events emitted although the directive is not instrumented", i)
		}
		// ---- task level -----------------------------------------------------------
		byName := map[string][]Event{}
		for _, ev := range evs {
			if strings.HasPrefix(ev.Ev, "Task") {
				byName[ev.Name] = append(byName[ev.Name], ev)
			}
		}
		known := map[string]bool{}
		for _, in := range insts {
			known[in.name] = true
			tevs := byName[in.name]
			count := func(k string) (n int, last Event) {
				for _, ev := range tevs {
					if ev.Ev == k {
						n++
						last = ev
					}
				}
				return
			}
			invoked := cs[callKey{in.unit, -1}]
			nSkipped, _ := count("TaskSkipped")
			nDone, doneEv := count("TaskDone")
			if len(invoked) == 0 {
				if r.Err == nil && nSkipped != 1 {
					add("emitter %d: task %s was not invoked in a run that returned nil, but TaskSkipped was emitted %d times", i, in.name, nSkipped)
				}
				if nDone != 0 {
					add("emitter %d: task %s was not invoked but TaskDone was emitted", i, in.name)
				}
				if n, _ := count("TaskSuccess"); n != 0 {
					add("emitter %d: task %s was not invoked but TaskSuccess was emitted", i, in.name)
				}
				continue
			}
			call := invoked[0]
			want, wantErr, wantPV := "TaskSuccess", false, false
			switch call.O {
			case OErr:
				want, wantErr = "TaskError", true
				if in.fallback {
					want = "TaskErrorRecovered"
				}
			case OPanic:
				want, wantPV = "TaskPanic", true
				if in.fallback {
					want = "TaskPanicRecovered"
				}
			}
			var inj *Injected
			for k := range e.Injected {
				if e.Injected[k].Unit == in.unit && e.Injected[k].Elem == -1 {
					inj = &e.Injected[k]
				}
			}
			nOutcome := 0
			for _, k := range []string{"TaskSuccess", "TaskError", "TaskErrorRecovered", "TaskPanic", "TaskPanicRecovered"} {
				n, ev := count(k)
				nOutcome += n
				if k != want && n > 0 {
					add("emitter %d: task %s emitted %s but what happened is %s", i, in.name, k, want)
				}
				if k == want {
					if n != 1 {
						add("emitter %d: task %s was invoked (%s) but %s was emitted %d times", i, in.name, want, want, n)
					} else {
						if wantErr && inj != nil && !sameErr(ev.Err, inj.Err) {
							add("emitter %d: task %s: %s carried %q, the task returned %q", i, in.name, k, ev.ErrS, inj.Err)
						}
						if wantPV && inj != nil && !panicValueMatches(ev.PV, *inj) {
							add("emitter %d: task %s: %s carried %#v, the task panicked with %#v", i, in.name, k, ev.PV, inj.PV)
						}
						if nDone == 1 && doneEv.Start < ev.Start {
							add("emitter %d: task %s: TaskDone emitted before %s", i, in.name, k)
						}
					}
				}
			}
			if nDone != 1 {
				add("emitter %d: task %s was invoked but TaskDone was emitted %d times", i, in.name, nDone)
			}
			if r.Err == nil && nSkipped != 0 {
				add("emitter %d: task %s was invoked in a run that returned nil, yet TaskSkipped was emitted", i, in.name)
			}
		}
		if !(s.AutoInstr && s.Encl == "generic") { // the generic enclosure adds one unmodelled helper task, auto-instrumented under its own name
			for name := range byName {
				if !known[name] {
					add("emitter %d: events for %q, which is not an instrumented task of this directive", i, name)
				}
			}
		}
	}
	return out
}

func firstLineOrNil(err error) string {
	if err == nil {
		return "<nil>"
	}
	return firstLine(err)
}
