package verifx

import (
	"os"
	"path/filepath"
	"testing"

	"pgregory.net/rapid"
)

func TestSmokeRender(t *testing.T) {
	dir := os.Getenv("SMOKE_DIR")
	if dir == "" {
		t.Skip("SMOKE_DIR not set")
	}
	var p *PackageSpec
	rapid.Check(t, func(rt_ *rapid.T) {
		o := DefaultOpts()
		if os.Getenv("SMOKE_MOD") != "" {
			o.ModSubset = true
			o.PParallel = 0
			o.Spellings = []string{"lit"}
		}
		p = GenPackage(rt_, o, 2, 4)
	})
	os.RemoveAll(filepath.Join(dir, "vcase"))
	if err := WriteModule(filepath.Join(dir, "vcase"), p, "rt", "/repo"); err != nil {
		t.Fatal(err)
	}
}
