package verifx

import (
	"os"
	"os/exec"
	"path/filepath"
	"testing"

	"go.uber.org/cff/verifx/rt"
	"pgregory.net/rapid"
)

func TestSmokeRender(t *testing.T) {
	dir := os.Getenv("SMOKE_DIR")
	if dir == "" {
		t.Skip("SMOKE_DIR not set")
	}
	var p *PackageSpec
	rapid.Check(t, func(rt_ *rapid.T) {
		p = &PackageSpec{}
		o := DefaultOpts()
		n := 0
		for fi := 0; fi < 3; fi++ {
			f := &FileSpec{Name: "f" + string(rune('1'+fi)) + ".go", Header: "//go:build cff\n", Idx: fi, Decor: fi}
			for k := 0; k < 6; k++ {
				f.Progs = append(f.Progs, GenDirective(rt_, "Prog"+string(rune('A'+n)), o))
				n++
			}
			p.Files = append(p.Files, f)
		}
	})
	_ = rt.MapKey
	os.RemoveAll(filepath.Join(dir, "vcase"))
	if err := WriteModule(filepath.Join(dir, "vcase"), p, "rt", "/repo"); err != nil {
		t.Fatal(err)
	}
	cmd := exec.Command("go", "vet", "-tags", "cff", "./...")
	cmd.Dir = filepath.Join(dir, "vcase")
	out, err := cmd.CombinedOutput()
	t.Logf("vet -tags cff: %v\n%s", err, out)
}
