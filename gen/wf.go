package verifx

import (
	"fmt"

	"go.uber.org/cff/verifx/rt"
	"pgregory.net/rapid"
)

// WellFormed is the reference well-formedness checker for flows, written
// from the documentation (docs + cff.go), independent of cff's compiler:
//
//   - every consumed type (task input, predicate input, Results target) has a provider
//   - no type is provided twice (two tasks, a task and Params, twice in Params, twice by one task)
//   - the dependency graph (through task inputs and predicate inputs) is acyclic
//   - every Params value is consumed; every task output is consumed
//   - a task without outputs carries Invoke(true)
//
// It returns the list of defects ("" list = well-formed).
func WellFormed(s *rt.Spec) []string {
	var defects []string
	add := func(f string, a ...interface{}) { defects = append(defects, fmt.Sprintf(f, a...)) }
	provider := map[string]int{} // type -> task index, -1 params
	for _, p := range s.Params {
		if _, dup := provider[p.Key()]; dup {
			add("type %s provided twice in Params", p.Key())
		}
		provider[p.Key()] = -1
	}
	for i, t := range s.Tasks {
		seen := map[string]bool{}
		for _, o := range t.Out {
			if seen[o.Key()] {
				add("task %d returns %s twice", i, o.Key())
				continue
			}
			seen[o.Key()] = true
			if _, dup := provider[o.Key()]; dup {
				add("type %s provided twice", o.Key())
				continue
			}
			provider[o.Key()] = i
		}
		if len(t.Out) == 0 && !t.Invoke {
			add("task %d has no outputs and no Invoke(true)", i)
		}
		if len(t.Out) > 0 && t.Invoke {
			add("task %d has outputs and Invoke(true)", i)
		}
	}
	consumed := map[string]bool{}
	need := func(x rt.TypeRef, who string) {
		consumed[x.Key()] = true
		if _, ok := provider[x.Key()]; !ok {
			add("no provider for %s needed by %s", x.Key(), who)
		}
	}
	for i, t := range s.Tasks {
		for _, in := range t.In {
			need(in, fmt.Sprintf("task %d", i))
		}
		if t.Pred != nil {
			for _, in := range t.Pred.In {
				need(in, fmt.Sprintf("predicate of task %d", i))
			}
		}
	}
	for _, r := range s.Results {
		need(r, "Results")
	}
	for _, p := range s.Params {
		if !consumed[p.Key()] {
			add("unused Params value %s", p.Key())
		}
	}
	for i, t := range s.Tasks {
		for _, o := range t.Out {
			if !consumed[o.Key()] {
				add("unused output %s of task %d", o.Key(), i)
			}
		}
	}
	// cycles: edges task -> provider task of each input (incl. predicate inputs)
	state := make([]int, len(s.Tasks))
	var visit func(i int) bool
	visit = func(i int) bool {
		if state[i] == 1 {
			return true
		}
		if state[i] == 2 {
			return false
		}
		state[i] = 1
		ins := append([]rt.TypeRef{}, s.Tasks[i].In...)
		if s.Tasks[i].Pred != nil {
			ins = append(ins, s.Tasks[i].Pred.In...)
		}
		for _, in := range ins {
			if p, ok := provider[in.Key()]; ok && p >= 0 {
				if visit(p) {
					return true
				}
			}
		}
		state[i] = 2
		return false
	}
	for i := range s.Tasks {
		if visit(i) {
			add("dependency cycle through task %d", i)
			break
		}
	}
	return defects
}

// Mutate applies one single-defect mutation to a well-formed flow. The
// returned label names the mutation; the verdict is always decided by
// WellFormed on the mutated spec (a mutation may happen to stay well-formed,
// e.g. a "back edge" between independent tasks).
func Mutate(t *rapid.T, s *rt.Spec) string {
	pool := &typePool{used: map[string]bool{}}
	for _, p := range s.Params {
		pool.used[p.Key()] = true
	}
	for _, ts := range s.Tasks {
		for _, o := range ts.Out {
			pool.used[o.Key()] = true
		}
	}
	allTypes := func() []rt.TypeRef {
		var l []rt.TypeRef
		l = append(l, s.Params...)
		for _, ts := range s.Tasks {
			l = append(l, ts.Out...)
		}
		return l
	}
	for try := 0; try < 20; try++ {
		switch uniform(t, "mutation", 11) {
		case 0: // drop a Params value
			if len(s.Params) == 0 {
				continue
			}
			k := uniform(t, "which", len(s.Params))
			s.Params = append(s.Params[:k:k], s.Params[k+1:]...)
			return "drop-param"
		case 1: // drop a providing task (its outputs lose their provider)
			var c []int
			for i, ts := range s.Tasks {
				if len(ts.Out) > 0 {
					c = append(c, i)
				}
			}
			if len(c) == 0 || len(s.Tasks) < 2 {
				continue
			}
			k := c[uniform(t, "which", len(c))]
			s.Tasks = append(s.Tasks[:k:k], s.Tasks[k+1:]...)
			return "drop-task"
		case 2: // a second task provides an existing type
			ts := allTypes()
			if len(ts) == 0 {
				continue
			}
			x := ts[uniform(t, "which", len(ts))]
			if x.K == "W" || x.K == "U" || x.K == "V" {
				continue
			}
			nt := rt.TaskSpec{Unit: s.Units, Out: []rt.TypeRef{x}, Sp: "lit"}
			s.Units++
			pos := uniform(t, "pos", len(s.Tasks)+1)
			s.Tasks = append(s.Tasks[:pos:pos], append([]rt.TaskSpec{nt}, s.Tasks[pos:]...)...)
			return "dup-provider-task"
		case 3: // Params provides a type twice / a type a task provides
			ts := allTypes()
			if len(ts) == 0 {
				continue
			}
			s.Params = append(s.Params, ts[uniform(t, "which", len(ts))])
			return "dup-provider-param"
		case 4: // one task returns the same type twice
			var c []int
			for i, ts := range s.Tasks {
				if len(ts.Out) > 0 && ts.Sp == "lit" {
					c = append(c, i)
				}
			}
			if len(c) == 0 {
				continue
			}
			k := c[uniform(t, "which", len(c))]
			s.Tasks[k].Out = append(s.Tasks[k].Out, s.Tasks[k].Out[0])
			return "dup-provider-same-task"
		case 5: // back edge: an earlier task (or its predicate) consumes the output of a later one
			if len(s.Tasks) < 2 {
				continue
			}
			j := 1 + uniform(t, "later", len(s.Tasks)-1)
			if len(s.Tasks[j].Out) == 0 {
				continue
			}
			i := uniform(t, "earlier", j)
			if s.Tasks[i].Sp == "imported" {
				continue
			}
			x := s.Tasks[j].Out[uniform(t, "out", len(s.Tasks[j].Out))]
			if s.Tasks[i].Pred != nil && rapid.Bool().Draw(t, "viaPred") {
				s.Tasks[i].Pred.In = append(s.Tasks[i].Pred.In, x)
				return "back-edge-pred"
			}
			for _, in := range s.Tasks[i].In {
				if in.Key() == x.Key() {
					x = rt.TypeRef{}
				}
			}
			if x.K == "" {
				continue
			}
			s.Tasks[i].In = append(s.Tasks[i].In, x)
			return "back-edge"
		case 6: // unused Params value
			x, ok := pool.fresh(t, false)
			if !ok {
				continue
			}
			s.Params = append(s.Params, x)
			return "unused-param"
		case 7: // an output nobody consumes
			var c []int
			for i, ts := range s.Tasks {
				if ts.Sp != "imported" && !ts.Invoke {
					c = append(c, i)
				}
			}
			if len(c) == 0 {
				continue
			}
			x, ok := pool.fresh(t, false)
			if !ok {
				continue
			}
			k := c[uniform(t, "which", len(c))]
			s.Tasks[k].Out = append(s.Tasks[k].Out, x)
			if s.Tasks[k].Fallback {
				// keep FallbackWith arity consistent: the renderer derives it from Out
			}
			return "unused-output"
		case 9, 10: // a cycle among new tasks that feeds no Results target and no Invoke task
			n := 2 + uniform(t, "cyclelen", 2)
			var xs []rt.TypeRef
			for k := 0; k < n; k++ {
				x, ok := pool.fresh(t, false)
				if !ok {
					break
				}
				xs = append(xs, x)
			}
			if len(xs) < n {
				continue
			}
			viaPred := uniform(t, "cyclepred", 3) == 0
			hang := uniform(t, "cyclehang", 3) == 0
			var nts []rt.TaskSpec
			for k := 0; k < n; k++ {
				nt := rt.TaskSpec{Unit: s.Units, In: []rt.TypeRef{xs[k]}, Out: []rt.TypeRef{xs[(k+1)%n]}, Sp: "lit"}
				s.Units++
				if k == 0 && viaPred {
					// the edge into the first task goes through its predicate only
					nt.In = nil
					nt.Pred = &rt.PredSpec{Unit: s.Units, In: []rt.TypeRef{xs[0]}, Sp: "lit"}
					s.Units++
				}
				if k == 1 && hang {
					// the cycle hangs below an existing value
					if ts := allTypes(); len(ts) > 0 {
						nt.In = append(nt.In, ts[uniform(t, "hangon", len(ts))])
					}
				}
				nts = append(nts, nt)
			}
			for _, nt := range nts {
				pos := uniform(t, "pos", len(s.Tasks)+1)
				s.Tasks = append(s.Tasks[:pos:pos], append([]rt.TaskSpec{nt}, s.Tasks[pos:]...)...)
			}
			switch {
			case viaPred:
				return "detached-cycle-pred"
			case hang:
				return "detached-cycle-hanging"
			}
			return "detached-cycle"
		case 8: // strip Invoke(true)
			var c []int
			for i, ts := range s.Tasks {
				if ts.Invoke {
					c = append(c, i)
				}
			}
			if len(c) == 0 {
				continue
			}
			s.Tasks[c[uniform(t, "which", len(c))]].Invoke = false
			return "strip-invoke"
		}
	}
	return "none"
}
