package verifx

import (
	"encoding/json"
	"fmt"
	"os"
	"path/filepath"
	"strings"
	"testing"
	"time"

	"go.uber.org/cff/verifx/rt"
)

// TestLattice is the bounded-exhaustive stage of C14 for cff.Slice / cff.Map:
// every (element type, parameter type) pair of a small lattice, in both
// directions, for slice elements, map keys and map values. The expected
// verdict is Go's assignability of the ELEMENT to the PARAMETER (spec:
// identical types; concrete to interface it implements; unnamed to named
// with identical underlying type and vice versa), tabulated here by hand.
func TestLattice(t *testing.T) {
	if *flagCff == "" {
		t.Skip("-cff not given")
	}
	type ty struct{ name, expr string }
	tys := []ty{{"T1", "T1"}, {"PT1", "*T1"}, {"I1", "I1"}, {"impl1", "impl1"}, {"N1", "N1"}, {"N2", "N2"}, {"u64", "uint64"},
		{"NLT1", "NL_T1"}, {"LT1", "[]T1"}, {"any", "interface{}"}}
	assignable := func(elem, param string) bool {
		if elem == param {
			return true
		}
		switch elem + ">" + param {
		case "impl1>I1", "NLT1>LT1", "LT1>NLT1":
			return true
		case "T1>I1", "PT1>I1", "N1>I1", "N2>I1":
			// (the support file gives every T, hence *T, and every N the
			// methods Tag1..Tag3: they implement I1)
			return true
		}
		return param == "any"
	}
	comparable := map[string]bool{"T1": true, "PT1": true, "I1": true, "impl1": true, "N1": true, "N2": true, "u64": true, "any": true}
	type lcase struct {
		file, kind, elem, param string
		want                    bool
	}
	var cases []lcase
	files := map[string]string{}
	n := 0
	hdr := "//go:build cff\n\npackage p\n\nimport (\n\t\"context\"\n\n\t\"go.uber.org/cff\"\n)\n\n"
	for _, e := range tys {
		for _, p := range tys {
			n++
			fn := fmt.Sprintf("lat%d.go", n)
			files[fn] = hdr + fmt.Sprintf("// Lat%d: slice of %s passed to func(%s).\nfunc Lat%d(ctx context.Context, xs []%s) error {\n\treturn cff.Parallel(ctx, cff.Slice(func(v %s) {}, xs))\n}\n", n, e.expr, p.expr, n, e.expr, p.expr)
			cases = append(cases, lcase{fn, "slice-elem", e.name, p.name, assignable(e.name, p.name)})
			n++
			fn = fmt.Sprintf("lat%d.go", n)
			files[fn] = hdr + fmt.Sprintf("// Lat%d: map value %s passed to func(string, %s).\nfunc Lat%d(ctx context.Context, m map[string]%s) error {\n\treturn cff.Parallel(ctx, cff.Map(func(k string, v %s) {}, m))\n}\n", n, e.expr, p.expr, n, e.expr, p.expr)
			cases = append(cases, lcase{fn, "map-value", e.name, p.name, assignable(e.name, p.name)})
			// the same pairs with the collection held in a value of a declared
			// slice / map type (the verdict depends on the element types only)
			n++
			fn = fmt.Sprintf("lat%d.go", n)
			files[fn] = hdr + fmt.Sprintf("type latS%d []%s\n\n// Lat%d: declared slice type of %s passed to func(%s).\nfunc Lat%d(ctx context.Context, xs latS%d) error {\n\treturn cff.Parallel(ctx, cff.Slice(func(v %s) {}, xs))\n}\n", n, e.expr, n, e.expr, p.expr, n, n, p.expr)
			cases = append(cases, lcase{fn, "named-slice-elem", e.name, p.name, assignable(e.name, p.name)})
			n++
			fn = fmt.Sprintf("lat%d.go", n)
			files[fn] = hdr + fmt.Sprintf("type latM%d map[string]%s\n\n// Lat%d: declared map type with value %s passed to func(string, %s).\nfunc Lat%d(ctx context.Context, m latM%d) error {\n\treturn cff.Parallel(ctx, cff.Map(func(k string, v %s) {}, m))\n}\n", n, e.expr, n, e.expr, p.expr, n, n, p.expr)
			cases = append(cases, lcase{fn, "named-map-value", e.name, p.name, assignable(e.name, p.name)})
			if comparable[e.name] {
				n++
				fn = fmt.Sprintf("lat%d.go", n)
				files[fn] = hdr + fmt.Sprintf("// Lat%d: map key %s passed to func(%s, int).\nfunc Lat%d(ctx context.Context, m map[%s]int) error {\n\treturn cff.Parallel(ctx, cff.Map(func(k %s, v int) {}, m))\n}\n", n, e.expr, p.expr, n, e.expr, p.expr)
				cases = append(cases, lcase{fn, "map-key", e.name, p.name, assignable(e.name, p.name)})
			}
		}
	}
	work := *flagWork
	if work == "" {
		work = os.TempDir()
	}
	dir, err := os.MkdirTemp(work, "lat-")
	if err != nil {
		t.Skip(err)
	}
	defer os.RemoveAll(dir)
	mod := filepath.Join(dir, "vcase")
	if err := WriteModule(mod, &PackageSpec{}, *flagRtDir, *flagRepo); err != nil {
		t.Skip(err)
	}
	files["lat_types.go"] = "package p\n\n// impl1 used as a concrete type implementing I1 is declared in support.go\nvar _ I1 = impl1{}\n"
	for name, src := range files {
		os.WriteFile(filepath.Join(mod, "p", name), []byte(src), 0o644)
	}
	out, code, to := run(mod, 300*time.Second, *flagCff, "vcase/p")
	if to {
		t.Skip("cff timed out")
	}
	var findings []rt.Finding
	if crashed(out, code) {
		findings = append(findings, rt.Finding{Prop: "C13", Msg: "cff crashed on the lattice package: " + tailStr(out, 800)})
	}
	if strings.Contains(out, "load packages:") {
		t.Skipf("lattice input does not type-check (harness bug): %s", tailStr(out, 600))
	}
	var logf *os.File
	if *flagOut != "" {
		logf, _ = os.Create(filepath.Join(*flagOut, fmt.Sprintf("cases-%s-lattice-%d.jsonl", *flagProp, *flagShard)))
		defer logf.Close()
	}
	for i, c := range cases {
		_, err := os.Stat(filepath.Join(mod, "p", genName(c.file)))
		got := err == nil
		if logf != nil {
			ll := binLogLine{H: fmt.Sprintf("lattice/%s/%s>%s", c.kind, c.elem, c.param), NT: assignable(c.elem, c.param) != assignable(c.param, c.elem), N: 1,
				Labels: []string{"lattice:" + c.kind, fmt.Sprintf("verdict:%v", c.want)}}
			if i < 2 {
				ll.Sample = json.RawMessage(fmt.Sprintf("%q", files[c.file]))
			}
			b, _ := json.Marshal(ll)
			logf.Write(append(b, '\n'))
		}
		switch {
		case c.want && !got:
			findings = append(findings, rt.Finding{Prop: "C14", Msg: fmt.Sprintf("%s: element type %s is assignable to parameter type %s but cff rejected it (%s)", c.kind, c.elem, c.param, c.file)})
		case !c.want && got:
			findings = append(findings, rt.Finding{Prop: "C14", Msg: fmt.Sprintf("%s: element type %s is NOT assignable to parameter type %s but cff accepted it (%s)", c.kind, c.elem, c.param, c.file)})
		case !c.want && !strings.Contains(out, c.file):
			findings = append(findings, rt.Finding{Prop: "C14", Msg: fmt.Sprintf("%s: %s rejected without a diagnostic naming the file", c.kind, c.file)})
		}
	}
	if len(findings) == 0 {
		if o, c, _ := run(mod, 300*time.Second, "go", "build", "./..."); c != 0 {
			findings = append(findings, rt.Finding{Prop: "C13", Msg: "accepted lattice files do not compile: " + tailStr(o, 1200)})
		}
	}
	var mine []rt.Finding
	for _, f := range findings {
		if f.Prop == *flagProp {
			mine = append(mine, f)
		}
	}
	if len(mine) > 0 {
		if *flagOut != "" {
			fr := genFail{Prop: *flagProp, Engine: "lattice", Findings: mine, Output: tailStr(out, 3000)}
			b, _ := json.MarshalIndent(fr, "", " ")
			os.WriteFile(filepath.Join(*flagOut, fmt.Sprintf("fail-%s-lattice-%d.json", *flagProp, *flagShard)), b, 0o644)
		}
		t.Fatalf("%d lattice verdicts differ, first: %s", len(mine), mine[0].Msg)
	}
}
