package verifx

import (
	"fmt"
	"go/ast"
	"go/parser"
	"go/token"
	"sort"
	"strings"
)

// Semantics-preserving source mutations of hand-written cff programs (engine
// E-CORPUS). Every operator rewrites the *text* of a cff-tagged source file
// at positions found through go/parser, so comments and layout of everything
// else survive. A mutation is (Op, Site, Arg): the site is an index into the
// operator's candidate list (taken modulo its length), so a case stays valid
// while rapid shrinks it.
//
//	paren     (e)            around one argument expression of a directive
//	comment   /*m*/ e        before one argument expression
//	alias     import x "p"   an import gets an explicit name, all uses are renamed
//	dotimport import . "p"   an import other than cff becomes a dot import, its qualifiers are dropped
//	dupimport import p "p"; import p_y "p"   a package other than cff is imported a second time under another name; every second use goes through the new name
//	block     { stmt }       the statement holding a directive is wrapped (plain block / for{} / switch{default:})
//	closure   func() error { return cff.Flow(...) }()
//	extract   f := func...   a function-literal argument is first stored in a local variable
//	dupfunc   a copy of a function that contains a directive is appended under a new name
//	reorder   the directive's top-level options are rotated (changes listing order: behaviour is not judged)
//	header    the build-constraint header is rewritten into an equivalent one
type Mut struct {
	Op   string `json:"op"`
	Site int    `json:"site"`
	Arg  int    `json:"arg,omitempty"`
}

var mutOps = []string{"paren", "comment", "alias", "dotimport", "dupimport", "block", "closure", "extract", "dupfunc", "reorder", "header"}

// freeOps rewrite an option so that it is still type-correct Go but no longer
// has the literal shape cff documents (an option held in a variable, spread
// from a slice, converted, called through a parenthesised function, built by a
// closure). Whether cff supports the shape is not fixed by the listed
// properties: the verdict is free, but cff must not crash, a rejection must
// come with a positioned diagnostic and no output, and an accepted program
// must compile.
//
//	optvar     o := cff.Task(...); cff.Flow(ctx, o)
//	optspread  cff.Flow(ctx, []cff.Option{a, b}...)
//	optconv    cff.Option(cff.Task(...))
//	optparenfn (cff.Task)(f)
//	optclosure func() cff.Option { return cff.Task(...) }()
//	toptvar    to := cff.Invoke(true); cff.Task(f, to)
//	duptopt    cff.Task(f, cff.Invoke(true), cff.Invoke(true))   a task option given twice
//	dupopt     cff.Concurrency(2), cff.Concurrency(2)            a directive option (not Task/Tasks/Slice/Map) given twice
var freeOps = []string{"optvar", "optspread", "optconv", "optparenfn", "optclosure", "toptvar", "duptopt", "dupopt"}

func isFreeOp(op string) bool {
	for _, f := range freeOps {
		if f == op {
			return true
		}
	}
	return false
}

type edit struct {
	pos, end int
	text     string
}

func applyEdits(src []byte, eds []edit) []byte {
	sort.Slice(eds, func(i, j int) bool { return eds[i].pos > eds[j].pos })
	out := append([]byte{}, src...)
	for _, e := range eds {
		out = append(out[:e.pos], append([]byte(e.text), out[e.end:]...)...)
	}
	return out
}

type fileInfo struct {
	fset    *token.FileSet
	f       *ast.File
	src     []byte
	cffName string
}

func parseForMut(src []byte) (*fileInfo, error) {
	fset := token.NewFileSet()
	f, err := parser.ParseFile(fset, "x.go", src, parser.ParseComments)
	if err != nil {
		return nil, err
	}
	fi := &fileInfo{fset: fset, f: f, src: src}
	for _, im := range f.Imports {
		if strings.Trim(im.Path.Value, `"`) == "go.uber.org/cff" {
			fi.cffName = "cff"
			if im.Name != nil {
				fi.cffName = im.Name.Name
			}
		}
	}
	return fi, nil
}

func (fi *fileInfo) off(p token.Pos) int { return fi.fset.Position(p).Offset }

// importsUngrouped reports whether the import declarations are written
// without parentheses (import "a" / import "b").
func (fi *fileInfo) importsUngrouped() bool {
	for _, d := range fi.f.Decls {
		if gd, ok := d.(*ast.GenDecl); ok && gd.Tok == token.IMPORT {
			return !gd.Lparen.IsValid()
		}
	}
	return false
}
func (fi *fileInfo) text(n ast.Node) string {
	return string(fi.src[fi.off(n.Pos()):fi.off(n.End())])
}

func (fi *fileInfo) isCffCall(e ast.Expr, names ...string) (*ast.CallExpr, bool) {
	c, ok := e.(*ast.CallExpr)
	if !ok {
		return nil, false
	}
	sel, ok := c.Fun.(*ast.SelectorExpr)
	if !ok {
		return nil, false
	}
	id, ok := sel.X.(*ast.Ident)
	if !ok || id.Name != fi.cffName || id.Obj != nil || fi.cffName == "" {
		return nil, false
	}
	if len(names) == 0 {
		return c, true
	}
	for _, n := range names {
		if sel.Sel.Name == n {
			return c, true
		}
	}
	return nil, false
}

// directives lists the cff.Flow / cff.Parallel calls of the file in source order.
func (fi *fileInfo) directives() []*ast.CallExpr {
	var out []*ast.CallExpr
	ast.Inspect(fi.f, func(n ast.Node) bool {
		if e, ok := n.(ast.Expr); ok {
			if c, ok := fi.isCffCall(e, "Flow", "Parallel"); ok {
				out = append(out, c)
				return false // nested directives are a known finding (F8); leave them alone
			}
		}
		return true
	})
	return out
}

// leaves lists the user-written argument expressions of a directive: every
// argument that is not itself a cff option call, recursively.
func (fi *fileInfo) leaves(d *ast.CallExpr) []ast.Expr {
	var out []ast.Expr
	var walk func(c *ast.CallExpr)
	walk = func(c *ast.CallExpr) {
		for _, a := range c.Args {
			if oc, ok := fi.isCffCall(a); ok {
				walk(oc)
			} else {
				out = append(out, a)
			}
		}
	}
	walk(d)
	return out
}

// stmtOf returns, for every directive, the statement that directly sits in a
// block's statement list and contains it (nil if there is none, e.g. inside
// the init clause of an if).
func (fi *fileInfo) stmtOf(d *ast.CallExpr) ast.Stmt {
	var found ast.Stmt
	ast.Inspect(fi.f, func(n ast.Node) bool {
		var list []ast.Stmt
		switch b := n.(type) {
		case *ast.BlockStmt:
			list = b.List
		case *ast.CaseClause:
			list = b.Body
		case *ast.CommClause:
			list = b.Body
		}
		for _, s := range list {
			if s.Pos() <= d.Pos() && d.End() <= s.End() {
				found = s // innermost wins: Inspect goes outside-in
			}
		}
		return true
	})
	return found
}

func (fi *fileInfo) enclosingFunc(d *ast.CallExpr) *ast.FuncDecl {
	for _, decl := range fi.f.Decls {
		if fd, ok := decl.(*ast.FuncDecl); ok && fd.Pos() <= d.Pos() && d.End() <= fd.End() {
			return fd
		}
	}
	return nil
}

// ApplyMut applies one mutation; ok=false means the operator has no
// candidate site in this file (the mutation is skipped, not an error).
func ApplyMut(src []byte, m Mut) (out []byte, label string, ok bool) {
	fi, err := parseForMut(src)
	if err != nil || fi.cffName == "" {
		return src, "", false
	}
	ds := fi.directives()
	if len(ds) == 0 && m.Op != "header" && m.Op != "alias" && m.Op != "dotimport" && m.Op != "dupimport" {
		return src, "", false
	}
	pick := func(n int) int { return ((m.Site % n) + n) % n }
	switch m.Op {
	case "paren", "comment":
		var ls []ast.Expr
		for _, d := range ds {
			ls = append(ls, fi.leaves(d)...)
		}
		if len(ls) == 0 {
			return src, "", false
		}
		e := ls[pick(len(ls))]
		if m.Op == "paren" {
			return applyEdits(src, []edit{{fi.off(e.Pos()), fi.off(e.End()), "(" + fi.text(e) + ")"}}), "paren:" + exprKind(e), true
		}
		return applyEdits(src, []edit{{fi.off(e.Pos()), fi.off(e.Pos()), "/*m*/ "}}), "comment", true
	case "alias":
		var cands []*ast.ImportSpec
		for _, im := range fi.f.Imports {
			if im.Name == nil {
				cands = append(cands, im)
			}
		}
		if len(cands) == 0 {
			return src, "", false
		}
		im := cands[pick(len(cands))]
		path := strings.Trim(im.Path.Value, `"`)
		base := path[strings.LastIndex(path, "/")+1:]
		nn := base + "_x"
		eds := []edit{{fi.off(im.Pos()), fi.off(im.Pos()), nn + " "}}
		ast.Inspect(fi.f, func(n ast.Node) bool {
			if sel, ok := n.(*ast.SelectorExpr); ok {
				if id, ok := sel.X.(*ast.Ident); ok && id.Name == base && id.Obj == nil {
					eds = append(eds, edit{fi.off(id.Pos()), fi.off(id.End()), nn})
				}
			}
			return true
		})
		return applyEdits(src, eds), "alias:" + base, true
	case "dupimport":
		type cand struct {
			im   *ast.ImportSpec
			uses []*ast.Ident
		}
		var cands []cand
		for _, im := range fi.f.Imports {
			p := strings.Trim(im.Path.Value, `"`)
			if im.Name != nil || p == "go.uber.org/cff" || strings.Contains(p, "-") {
				continue
			}
			base := p[strings.LastIndex(p, "/")+1:]
			c := cand{im: im}
			ast.Inspect(fi.f, func(n ast.Node) bool {
				if sel, ok := n.(*ast.SelectorExpr); ok {
					if id, ok := sel.X.(*ast.Ident); ok && id.Name == base && id.Obj == nil {
						c.uses = append(c.uses, id)
					}
				}
				return true
			})
			if len(c.uses) >= 2 {
				cands = append(cands, c)
			}
		}
		if len(cands) == 0 {
			return src, "", false
		}
		c := cands[pick(len(cands))]
		path := strings.Trim(c.im.Path.Value, `"`)
		base := path[strings.LastIndex(path, "/")+1:]
		nn := base + "_y"
		eds := []edit{{fi.off(c.im.End()), fi.off(c.im.End()), "\n" + nn + " " + c.im.Path.Value}}
		if fi.importsUngrouped() {
			eds = []edit{{fi.off(c.im.End()), fi.off(c.im.End()), "\nimport " + nn + " " + c.im.Path.Value}}
		}
		for i, id := range c.uses {
			if i%2 == 1 {
				eds = append(eds, edit{fi.off(id.Pos()), fi.off(id.End()), nn})
			}
		}
		return applyEdits(src, eds), "dupimport:" + base, true
	case "dotimport":
		var cands []*ast.ImportSpec
		for _, im := range fi.f.Imports {
			if p := strings.Trim(im.Path.Value, `"`); im.Name == nil && p != "go.uber.org/cff" && p != "context" && !strings.Contains(p, "-") {
				cands = append(cands, im)
			}
		}
		if len(cands) == 0 {
			return src, "", false
		}
		im := cands[pick(len(cands))]
		path := strings.Trim(im.Path.Value, `"`)
		base := path[strings.LastIndex(path, "/")+1:]
		eds := []edit{{fi.off(im.Pos()), fi.off(im.Pos()), ". "}}
		uses := 0
		ast.Inspect(fi.f, func(n ast.Node) bool {
			if sel, ok := n.(*ast.SelectorExpr); ok {
				if id, ok := sel.X.(*ast.Ident); ok && id.Name == base && id.Obj == nil {
					eds = append(eds, edit{fi.off(id.Pos()), fi.off(sel.Sel.Pos()), ""})
					uses++
				}
			}
			return true
		})
		if uses == 0 {
			return src, "", false // (the package name may differ from the path's last element)
		}
		return applyEdits(src, eds), "dotimport:" + base, true
	case "block":
		type cand struct {
			s   ast.Stmt
			ret bool
		}
		var cs []cand
		for _, d := range ds {
			switch s := fi.stmtOf(d).(type) {
			case *ast.ReturnStmt:
				cs = append(cs, cand{s, true})
			case *ast.ExprStmt:
				cs = append(cs, cand{s, false})
			case *ast.AssignStmt:
				if s.Tok == token.ASSIGN {
					cs = append(cs, cand{s, false})
				}
			}
		}
		if len(cs) == 0 {
			return src, "", false
		}
		c := cs[pick(len(cs))]
		t := fi.text(c.s)
		var nt, lab string
		switch {
		case m.Arg%3 == 1 && c.ret:
			nt, lab = "for {\n"+t+"\n}", "block:for"
		case m.Arg%3 == 2:
			nt, lab = "switch {\ndefault:\n"+t+"\n}", "block:switch"
		default:
			nt, lab = "{\n"+t+"\n}", "block:plain"
		}
		return applyEdits(src, []edit{{fi.off(c.s.Pos()), fi.off(c.s.End()), nt}}), lab, true
	case "closure":
		d := ds[pick(len(ds))]
		return applyEdits(src, []edit{{fi.off(d.Pos()), fi.off(d.End()), "func() error {\nreturn " + fi.text(d) + "\n}()"}}), "closure", true
	case "extract":
		type cand struct {
			lit ast.Expr
			s   ast.Stmt
		}
		var cs []cand
		for _, d := range ds {
			s := fi.stmtOf(d)
			if s == nil {
				continue
			}
			for _, l := range fi.leaves(d) {
				if _, ok := l.(*ast.FuncLit); ok {
					cs = append(cs, cand{l, s})
				}
			}
		}
		if len(cs) == 0 {
			return src, "", false
		}
		c := cs[pick(len(cs))]
		name := fmt.Sprintf("mfn%d", strings.Count(string(src), "mfn"))
		return applyEdits(src, []edit{
			{fi.off(c.lit.Pos()), fi.off(c.lit.End()), name},
			{fi.off(c.s.Pos()), fi.off(c.s.Pos()), name + " := " + fi.text(c.lit) + "\n"},
		}), "extract", true
	case "dupfunc":
		var fds []*ast.FuncDecl
		seen := map[*ast.FuncDecl]bool{}
		for _, d := range ds {
			if fd := fi.enclosingFunc(d); fd != nil && !seen[fd] && fd.Name.Name != "init" && fd.Name.Name != "main" {
				seen[fd] = true
				fds = append(fds, fd)
			}
		}
		if len(fds) == 0 {
			return src, "", false
		}
		fd := fds[pick(len(fds))]
		start := fi.off(fd.Pos()) // excludes the doc comment
		t := string(src[start:fi.off(fd.End())])
		nameOff := fi.off(fd.Name.Pos()) - start
		nn := fmt.Sprintf("%sDup%d", fd.Name.Name, strings.Count(string(src), "Dup"))
		t = t[:nameOff] + nn + t[nameOff+len(fd.Name.Name):]
		return append(append([]byte{}, src...), []byte("\n\n"+t+"\n")...), "dupfunc", true
	case "reorder":
		var cs []*ast.CallExpr
		for _, d := range ds {
			if len(d.Args) >= 3 { // ctx + at least two options
				cs = append(cs, d)
			}
		}
		if len(cs) == 0 {
			return src, "", false
		}
		d := cs[pick(len(cs))]
		opts := d.Args[1:]
		if ell := d.Ellipsis; ell.IsValid() {
			return src, "", false
		}
		k := 1 + m.Arg%(len(opts)-1)
		var eds []edit
		for i, o := range opts {
			eds = append(eds, edit{fi.off(o.Pos()), fi.off(o.End()), fi.text(opts[(i+k)%len(opts)])})
		}
		return applyEdits(src, eds), "reorder", true
	case "optvar", "optconv", "optparenfn", "optclosure":
		type cand struct {
			o *ast.CallExpr
			s ast.Stmt
		}
		var cs []cand
		for _, d := range ds {
			s := fi.stmtOf(d)
			for _, a := range d.Args[1:] {
				if oc, ok := fi.isCffCall(a); ok {
					cs = append(cs, cand{oc, s})
				}
			}
		}
		if len(cs) == 0 {
			return src, "", false
		}
		c := cs[pick(len(cs))]
		t := fi.text(c.o)
		switch m.Op {
		case "optvar":
			if c.s == nil {
				return src, "", false
			}
			name := fmt.Sprintf("mopt%d", strings.Count(string(src), "mopt"))
			return applyEdits(src, []edit{
				{fi.off(c.o.Pos()), fi.off(c.o.End()), name},
				{fi.off(c.s.Pos()), fi.off(c.s.Pos()), name + " := " + t + "\n"},
			}), "optvar", true
		case "optconv":
			return applyEdits(src, []edit{{fi.off(c.o.Pos()), fi.off(c.o.End()), fi.cffName + ".Option(" + t + ")"}}), "optconv", true
		case "optparenfn":
			fn := fi.text(c.o.Fun)
			return applyEdits(src, []edit{{fi.off(c.o.Fun.Pos()), fi.off(c.o.Fun.End()), "(" + fn + ")"}}), "optparenfn", true
		default:
			return applyEdits(src, []edit{{fi.off(c.o.Pos()), fi.off(c.o.End()), "func() " + fi.cffName + ".Option {\nreturn " + t + "\n}()"}}), "optclosure", true
		}
	case "optspread":
		var cs []*ast.CallExpr
		for _, d := range ds {
			if len(d.Args) >= 2 && !d.Ellipsis.IsValid() {
				cs = append(cs, d)
			}
		}
		if len(cs) == 0 {
			return src, "", false
		}
		d := cs[pick(len(cs))]
		first, last := d.Args[1], d.Args[len(d.Args)-1]
		// keep a trailing comma of the original argument list inside the literal
		return applyEdits(src, []edit{
			{fi.off(first.Pos()), fi.off(first.Pos()), "[]" + fi.cffName + ".Option{"},
			{fi.off(last.End()), fi.off(last.End()), "}..."},
		}), "optspread", true
	case "duptopt", "dupopt":
		var cs []*ast.CallExpr
		for _, d := range ds {
			for _, a := range d.Args[1:] {
				oc, ok := fi.isCffCall(a)
				if !ok {
					continue
				}
				if m.Op == "dupopt" {
					if _, isWork := fi.isCffCall(a, "Task", "Tasks", "Slice", "Map"); !isWork {
						cs = append(cs, oc)
					}
					continue
				}
				if _, isTask := fi.isCffCall(a, "Task", "Slice", "Map"); isTask && len(oc.Args) >= 2 {
					for _, ta := range oc.Args[1:] {
						if tc, ok := fi.isCffCall(ta); ok {
							cs = append(cs, tc)
						}
					}
				}
			}
		}
		if len(cs) == 0 {
			return src, "", false
		}
		o := cs[pick(len(cs))]
		return applyEdits(src, []edit{{fi.off(o.End()), fi.off(o.End()), ", " + fi.text(o)}}), m.Op, true
	case "toptvar":
		type cand struct {
			o *ast.CallExpr
			s ast.Stmt
		}
		var cs []cand
		for _, d := range ds {
			s := fi.stmtOf(d)
			if s == nil {
				continue
			}
			for _, a := range d.Args[1:] {
				if oc, ok := fi.isCffCall(a, "Task"); ok && len(oc.Args) >= 2 {
					for _, ta := range oc.Args[1:] {
						if tc, ok := fi.isCffCall(ta); ok {
							cs = append(cs, cand{tc, s})
						}
					}
				}
			}
		}
		if len(cs) == 0 {
			return src, "", false
		}
		c := cs[pick(len(cs))]
		name := fmt.Sprintf("mtopt%d", strings.Count(string(src), "mtopt"))
		return applyEdits(src, []edit{
			{fi.off(c.o.Pos()), fi.off(c.o.End()), name},
			{fi.off(c.s.Pos()), fi.off(c.s.Pos()), name + " := " + fi.text(c.o) + "\n"},
		}), "toptvar", true
	case "header":
		// the header is everything before the package clause
		pkgOff := fi.off(fi.f.Package)
		head := string(src[:pkgOff])
		var kept []string
		hasConstraint := false
		for _, l := range strings.Split(head, "\n") {
			tl := strings.TrimSpace(l)
			if strings.HasPrefix(tl, "//go:build ") || strings.HasPrefix(tl, "// +build ") {
				hasConstraint = true
				continue
			}
			kept = append(kept, l)
		}
		if !hasConstraint {
			return src, "", false
		}
		variants := [][]string{
			{"//go:build cff"},
			{"// +build cff"},
			{"//go:build cff && !a"},
			{"//go:build (cff)"},
			{"//go:build !a && cff", "// +build !a,cff"},
			{"//go:build cff || (cff && a)"},
		}
		v := variants[((m.Arg%len(variants))+len(variants))%len(variants)]
		rest := strings.TrimLeft(strings.Join(kept, "\n"), "\n")
		nh := strings.Join(v, "\n") + "\n\n" + rest
		return append([]byte(nh), src[pkgOff:]...), fmt.Sprintf("header:%d", m.Arg%len(variants)), true
	}
	return src, "", false
}

func exprKind(e ast.Expr) string {
	switch e.(type) {
	case *ast.FuncLit:
		return "funclit"
	case *ast.Ident:
		return "ident"
	case *ast.UnaryExpr:
		return "unary"
	case *ast.CallExpr:
		return "call"
	case *ast.BasicLit:
		return "lit"
	case *ast.SelectorExpr:
		return "selector"
	}
	return "other"
}
