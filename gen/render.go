package verifx

import (
	"encoding/json"
	"fmt"
	"os"
	"path/filepath"
	"regexp"
	"sort"
	"strings"

	"go.uber.org/cff/verifx/rt"
)

// FileSpec is one program file of the generated package.
type FileSpec struct {
	Name   string     `json:"name"`   // e.g. f1.go
	Header string     `json:"header"` // build-constraint header (must select the file under the cff tag)
	Progs  []*rt.Spec `json:"progs"`
	Decor  int        `json:"decor"` // selects surrounding code
	Idx    int        `json:"idx"`
	// import spellings
	CtxAlias string `json:"ctxalias,omitempty"` // alias for "context" ("" = plain)
	CffAlias string `json:"cffalias,omitempty"` // alias for go.uber.org/cff
	Layout   int    `json:"layout,omitempty"`   // bit 0: CRLF line endings, bit 1: no newline at the end of the file, bit 2: //go:generate and a doc comment between the constraint and the package clause, bit 3: no blank line between a //go:build line and the package clause, bit 4: //line directives around the package clause (the file comes from a preprocessor), bit 5: the file starts with a UTF-8 byte order mark, bit 6: a line comment containing "/*" above the constraint, bit 7: a //line directive naming a file in another directory before every function (E-GEN C17 only)
	OddImp   int    `json:"oddimp,omitempty"`   // 1: imports vcase/odd/v2 (package odd), 2: math/rand/v2 (package rand), 3: vcase/twin/v3 (package debug), all without an explicit name
	TimeImp  string `json:"timeimp,omitempty"`  // "", "plain" (imports time), "alias" (tm "time"), "collide" (another package imported as time)
}

// PackageSpec is a whole generated module.
type PackageSpec struct {
	Files     []*FileSpec `json:"files"`
	AutoInstr bool        `json:"autoinstr,omitempty"`
	Twin      bool        `json:"twin,omitempty"`   // also write package pm (same sources) for the modifier-mode differential
	SrcMap    bool        `json:"srcmap,omitempty"` // E-BIN: package p is processed with -genmode=source-map (same behaviour is what C20 promises)
	// StaleOut (E-GEN, C16): an older and much longer generation already sits
	// at every second output path when cff runs.
	StaleOut bool `json:"staleout,omitempty"`
}

// Specs returns all directives of the package.
func (p *PackageSpec) Specs() []*rt.Spec {
	var out []*rt.Spec
	for _, f := range p.Files {
		out = append(out, f.Progs...)
	}
	return out
}

// JSON renders the package spec.
func (p *PackageSpec) JSON() string {
	b, _ := json.Marshal(p)
	return string(b)
}

type w struct {
	sb  strings.Builder
	ind int
}

func (x *w) f(format string, a ...interface{}) {
	x.sb.WriteString(strings.Repeat("\t", x.ind))
	fmt.Fprintf(&x.sb, format, a...)
	x.sb.WriteByte('\n')
}

// names used inside a program file
type names struct{ ctx, cff string }

func sig(n names, ctx bool, ins []string, outs []string, err bool) string {
	var ps []string
	if ctx {
		ps = append(ps, "ctx "+n.ctx+".Context")
	}
	ps = append(ps, ins...)
	rs := append([]string{}, outs...)
	if err {
		rs = append(rs, "error")
	}
	r := ""
	switch len(rs) {
	case 0:
	case 1:
		r = " " + rs[0]
	default:
		r = " (" + strings.Join(rs, ", ") + ")"
	}
	return "func(" + strings.Join(ps, ", ") + ")" + r
}

func ctxArg(has bool) string {
	if has {
		return "ctx"
	}
	return "nil"
}

// taskBody renders the body lines of a flow task function.
func taskBody(ts *rt.TaskSpec, envExpr string, inPkg func(rt.TypeRef) (mk, tag string)) []string {
	var args []string
	for i, in := range ts.In {
		_, tg := inPkg(in)
		args = append(args, fmt.Sprintf("%s(a%d)", tg, i))
	}
	call := fmt.Sprintf("%s.Task(%d, %s%s)", envExpr, ts.Unit, ctxArg(ts.Ctx), prefixComma(args))
	var rets []string
	for k, o := range ts.Out {
		mk, _ := inPkg(o)
		rets = append(rets, fmt.Sprintf("%s(o[%d])", mk, k))
	}
	switch {
	case len(ts.Out) == 0 && !ts.Err:
		return []string{call}
	case len(ts.Out) == 0:
		return []string{"_, err := " + call, "return err"}
	case !ts.Err:
		return []string{"o, _ := " + call, "return " + strings.Join(rets, ", ")}
	}
	return []string{"o, err := " + call, "return " + strings.Join(rets, ", ") + ", err"}
}

func prefixComma(args []string) string {
	if len(args) == 0 {
		return ""
	}
	return ", " + strings.Join(args, ", ")
}

func pHelpers(t rt.TypeRef) (string, string) { return "mk_" + t.Suffix(), "tag_" + t.Suffix() }

func extHelpers(t rt.TypeRef) (string, string) {
	switch t.K {
	case "W":
		return fmt.Sprintf("MkW%d", t.I), fmt.Sprintf("TagW%d", t.I)
	case "U":
		return fmt.Sprintf("ext2.MkU%d", t.I), fmt.Sprintf("ext2.TagU%d", t.I)
	case "V":
		return fmt.Sprintf("ext4.MkV%d", t.I), fmt.Sprintf("ext4.TagV%d", t.I)
	case "int":
		return "MkInt", "TagInt"
	case "string":
		return "MkString", "TagString"
	}
	panic("type not available in ext: " + t.Key())
}

func extType(t rt.TypeRef) string {
	switch t.K {
	case "W":
		return fmt.Sprintf("W%d", t.I)
	case "U":
		return fmt.Sprintf("ext2.U%d", t.I)
	case "V":
		return fmt.Sprintf("ext4.V%d", t.I)
	}
	return t.Go()
}

// progRender renders one directive function and collects the out-of-line
// declarations it needs.
type progRender struct {
	s            *rt.Spec
	n            names
	argK         int
	bareK        int
	poison       []string
	lastBare     string
	methK        int
	holdPoisoned bool
	pre          []string // statements before the directive (func vars, holders)
	decls        []string // package-level declarations in the program file
	extFns       []string // functions to add to package ext
}

var reIdent = regexp.MustCompile(`^[A-Za-z_][A-Za-z0-9_]*$`)

func (pr *progRender) wrap(expr string) string { return pr.wrapz(expr, "") }

// wrapz is wrap for values that have a recognisable "poison" value zero: in
// bare mode the local holding the value is overwritten with zero by the side
// effect of the LAST argument expression of the directive, so a generator
// that reads a bare identifier late (instead of once, in source order)
// delivers the poison instead of the value.
func (pr *progRender) wrapz(expr, zero string) string {
	if !pr.s.Wrap && pr.s.Bare && strings.HasPrefix(expr, "hold.M_") {
		// every other method value stays written as a selector on the plain
		// variable hold, which the last argument expression sets to nil: a
		// generator that evaluates the method value when the task runs
		// (instead of once, in source order) then binds a nil receiver
		pr.methK++
		if pr.methK%2 == 1 {
			if !pr.holdPoisoned {
				pr.holdPoisoned = true
				pr.poison = append(pr.poison, "hold = nil")
			}
			return expr
		}
	}
	if !pr.s.Wrap && pr.s.Bare && !reIdent.MatchString(expr) && !strings.HasPrefix(expr, "&") {
		if zero != "" {
			defer func() { pr.poison = append(pr.poison, pr.lastBare+" = "+zero) }()
		}
		// store the value in a local named like an identifier the generated
		// code introduces, and pass the bare identifier
		name := shadowNames[pr.bareK%len(shadowNames)]
		if pr.bareK >= len(shadowNames) {
			name = fmt.Sprintf("%s%d", name, pr.bareK/len(shadowNames))
		}
		pr.bareK++
		pr.pre = append(pr.pre, name+" := "+expr)
		pr.lastBare = name
		return name
	}
	if !pr.s.Wrap {
		return expr
	}
	k := pr.argK
	pr.argK++
	if strings.HasPrefix(expr, "hold.M_") {
		// a method value whose RECEIVER is the logged expression: the argument
		// is then a method value with a call as its receiver, not a call
		return fmt.Sprintf("rt.Arg(env, %d, hold).%s", k, strings.TrimPrefix(expr, "hold."))
	}
	return fmt.Sprintf("rt.Arg(env, %d, %s)", k, expr)
}

func (pr *progRender) typ(t rt.TypeRef) string {
	return t.Go()
}

// typIn is typ for the parameter of a consuming function: with AltSpell an
// unnamed function type is written with different parameter names, which is
// the identical type in another spelling.
func (pr *progRender) typIn(t rt.TypeRef) string {
	if pr.s.AltSpell && t.K == "F" {
		switch t.I {
		case 1:
			return "func() (tag uint64)"
		case 2:
			return "func(n int) uint64"
		}
		return "func(string, string) uint64"
	}
	return t.Go()
}

// fnExpr renders a function expression in the requested spelling.
// sigStr is the func type, body the statements (using `env`), static marks
// bodies that must obtain env from ctx.
func (pr *progRender) fnExpr(sp string, unit int, sigStr string, body []string, extSig string, extBody []string) string {
	lit := func(envFromCtx bool) string {
		var sb strings.Builder
		sb.WriteString(sigStr + " {\n")
		if envFromCtx {
			sb.WriteString("\t\t\tenv := rt.FromCtx(ctx)\n")
		}
		for _, l := range body {
			sb.WriteString("\t\t\t" + l + "\n")
		}
		sb.WriteString("\t\t}")
		return sb.String()
	}
	name := fmt.Sprintf("%s_u%d", pr.s.Name, unit)
	plainSig := strings.ReplaceAll(sigStr, pr.n.ctx+".Context", "context.Context")
	switch sp {
	case "top":
		d := "func top_" + name + strings.TrimPrefix(plainSig, "func") + " {\n\tenv := rt.FromCtx(ctx)\n"
		for _, l := range body {
			d += "\t" + l + "\n"
		}
		d += "}\n"
		pr.decls = append(pr.decls, d)
		return "top_" + name
	case "generic":
		// an explicitly instantiated generic function. With at least one
		// value parameter the first one is typed by the type parameter and
		// converted back in the body; otherwise the type parameter is a
		// phantom.
		tsig, inst, conv := plainSig, "struct{}", ""
		// (only for types that are a single token: unnamed struct / func / array
		// types contain commas, parentheses or line breaks)
		if m := regexp.MustCompile(`a0 ([\w.*]+(?:\[[\w.*]*\])?[\w.*]*)[,)]`).FindStringSubmatchIndex(plainSig); m != nil && !strings.Contains(plainSig[m[2]:m[3]], "func") && !strings.Contains(plainSig[m[2]:m[3]], "struct") {
			inst = plainSig[m[2]:m[3]]
			tsig = plainSig[:m[0]] + "a0x X" + plainSig[m[3]:]
			conv = "\ta0, _ := any(a0x).(" + inst + ") // comma-ok: a nil interface value converts to the zero value\n"
		}
		d := "func gen_" + name + "[X any]" + strings.TrimPrefix(tsig, "func") + " {\n\tenv := rt.FromCtx(ctx)\n" + conv
		for _, l := range body {
			d += "\t" + l + "\n"
		}
		d += "}\n"
		pr.decls = append(pr.decls, d)
		return "gen_" + name + "[" + inst + "]"
	case "method":
		d := "func (h *holder_" + pr.s.Name + ") M_" + name + strings.TrimPrefix(plainSig, "func") + " {\n\tenv := h.env\n"
		for _, l := range body {
			d += "\t" + l + "\n"
		}
		d += "}\n"
		pr.decls = append(pr.decls, d)
		return "hold.M_" + name
	case "funcvar":
		pr.pre = append(pr.pre, "fv_"+name+" := "+lit(false))
		return "fv_" + name
	case "pkgvar":
		// a package-level variable of function type (a "hook"). When nothing
		// else executes this program at the same time (env.Solo) the last
		// argument expression of a bare directive sets it to nil, and it is
		// restored when the enclosing function returns: a generator that
		// reads the variable when the task runs instead of once, in source
		// order, calls nil.
		d := "var pv_" + name + " = " + plainSig + " {\n\tenv := rt.FromCtx(ctx)\n"
		for _, l := range body {
			d += "\t" + l + "\n"
		}
		d += "}\n"
		pr.decls = append(pr.decls, d)
		if !pr.s.Wrap && pr.s.Bare {
			pr.pre = append(pr.pre, "defer func(sv "+sigStr+") {\n\t\tif env.Solo {\n\t\t\tpv_"+name+" = sv\n\t\t}\n\t}(pv_"+name+")")
			pr.poison = append(pr.poison, "if env.Solo { pv_"+name+" = nil }")
		}
		return "pv_" + name
	case "callret":
		d := "func mk_" + name + "(env *rt.Env) " + plainSig + " {\n\treturn " + strings.ReplaceAll(strings.ReplaceAll(lit(false), pr.n.ctx+".Context", "context.Context"), "\n\t\t", "\n") + "\n}\n"
		pr.decls = append(pr.decls, d)
		return "mk_" + name + "(env)"
	case "imported":
		d := "// Task_" + name + " is an imported task function.\nfunc Task_" + name + strings.TrimPrefix(extSig, "func") + " {\n\tenv := rt.FromCtx(ctx)\n"
		for _, l := range extBody {
			d += "\t" + l + "\n"
		}
		d += "}\n"
		pr.extFns = append(pr.extFns, d)
		return "ext.Task_" + name
	}
	return lit(false)
}

// mapCollExpr renders the collection argument of a cff.Map.
func mapCollExpr(mk string, mp *rt.MapSpec) string {
	e := fmt.Sprintf("%s%s(env.Coll(%d))", mk, mp.Elem.Suffix(), mp.Coll)
	if mp.Boxed && mp.KeyK == "" && !mp.Named {
		return fmt.Sprintf("box_%s{M: %s}.M", mp.Elem.Suffix(), e) // the same field of different composite literals
	}
	if mp.Named {
		e = fmt.Sprintf("N%s%s(%s)", mk, mp.Elem.Suffix(), e) // conversion to the declared map type
	}
	return e
}

func (pr *progRender) usesHolder() bool {
	for _, t := range pr.s.Tasks {
		if t.Sp == "method" {
			return true
		}
	}
	for _, t := range pr.s.PTasks {
		if t.Sp == "method" {
			return true
		}
	}
	return false
}

// render produces the function source for the directive.
func (pr *progRender) render() string {
	pr.s.NextUnits = nil
	s := pr.s
	n := pr.n
	var opts []func() string

	emitterExpr := func() []func() string {
		var out []func() string
		if s.Emitters == 0 {
			return nil
		}
		if s.EmitShared && s.Emitters == 4 {
			pr.pre = append(pr.pre,
				fmt.Sprintf("commonEm := %s.EmitterStack(env.Em(0), env.Em(1), env.Em(2))", n.cff),
				fmt.Sprintf("ownEm := %s.EmitterStack(commonEm, env.Em(3))", n.cff),
				fmt.Sprintf("siblingEm := %s.EmitterStack(commonEm, env.Em(4)) // a second stack derived from the same nested stack; never used", n.cff),
				"_ = siblingEm")
			return []func() string{func() string { return n.cff + ".WithEmitter(" + pr.wrap("ownEm") + ")" }}
		}
		if s.EmitNest && s.Emitters >= 2 {
			// first two emitters inside a nested stack, the rest separately
			out = append(out, func() string {
				return n.cff + ".WithEmitter(" + pr.wrap(fmt.Sprintf("%s.EmitterStack(env.Em(0), %s.EmitterStack(env.Em(1)))", n.cff, n.cff)) + ")"
			})
			for i := 2; i < s.Emitters; i++ {
				i := i
				out = append(out, func() string { return n.cff + ".WithEmitter(" + pr.wrap(fmt.Sprintf("env.Em(%d)", i)) + ")" })
			}
			return out
		}
		if s.EmitProcBase {
			out = append(out, func() string { return n.cff + ".WithEmitter(" + pr.wrap("rt.ProcBase()") + ")" })
		}
		for i := 0; i < s.Emitters; i++ {
			i := i
			out = append(out, func() string { return n.cff + ".WithEmitter(" + pr.wrap(fmt.Sprintf("env.Em(%d)", i)) + ")" })
		}
		return out
	}

	concOpt := func() {
		if s.Bare && !s.Wrap {
			return // rendered last, see below
		}
		switch {
		case strings.HasPrefix(s.Conc, "const:"):
			k := strings.TrimPrefix(s.Conc, "const:")
			if s.Shadow {
				// the limit is a CONSTANT named like a variable the generated code
				// declares before it creates the scheduler (declared below)
				k = constShadowName
			}
			opts = append(opts, func() string { return n.cff + ".Concurrency(" + pr.wrap(k) + ")" })
		case s.Conc == "expr":
			opts = append(opts, func() string { return n.cff + ".Concurrency(" + pr.wrap("env.ConcN()") + ")" })
		}
	}

	var resultDecls, resultReads []string
	if s.Kind == "flow" {
		if len(s.Params) > 0 {
			lo, hi := 0, len(s.Params)
			if s.ParSplit > 0 && s.ParSplit < len(s.Params) {
				// two cff.Params directives: the first ParSplit values, then the rest
				hi = s.ParSplit
				opts = append(opts, func() string {
					var ps []string
					for k := s.ParSplit; k < len(s.Params); k++ {
						mk, _ := pHelpers(s.Params[k])
						ps = append(ps, pr.wrapz(fmt.Sprintf("%s(env.Param(%d))", mk, k), mk+"(0)"))
					}
					return n.cff + ".Params(" + strings.Join(ps, ", ") + ")"
				})
			}
			opts = append(opts, func() string {
				var ps []string
				for k, p := range s.Params[lo:hi] {
					mk, _ := pHelpers(p)
					e := fmt.Sprintf("%s(env.Param(%d))", mk, k)
					if k%2 == 1 {
						// written as a conversion: the argument's type is then a
						// different go/types object than the helper's result type,
						// although identical (matters for identity-keyed lookups)
						e = fmt.Sprintf("(%s)(%s)", pr.typ(p), e)
					}
					ps = append(ps, pr.wrapz(e, mk+"(0)"))
				}
				return n.cff + ".Params(" + strings.Join(ps, ", ") + ")"
			})
		}
		if len(s.Results) > 0 {
			// in shadow mode the Results targets are named like the value
			// variables the generated code declares (v2, v3, ...)
			rname := func(k int) string {
				if s.Shadow {
					return fmt.Sprintf("v%d", k+2)
				}
				return fmt.Sprintf("r%d", k)
			}
			for k, r := range s.Results {
				mk, tg := pHelpers(r)
				resultDecls = append(resultDecls, fmt.Sprintf("%s := %s(env.Sentinel(%d))", rname(k), mk, k))
				resultReads = append(resultReads, fmt.Sprintf("env.Result(%d, %s(%s))", k, tg, rname(k)))
			}
			rlo, rhi := 0, len(s.Results)
			if s.ResSplit > 0 && s.ResSplit < len(s.Results) {
				// two cff.Results directives: the first ResSplit targets, then the rest
				rhi = s.ResSplit
				opts = append(opts, func() string {
					var rs []string
					for k := s.ResSplit; k < len(s.Results); k++ {
						rs = append(rs, pr.wrap(fmt.Sprintf("&%s", rname(k))))
					}
					return n.cff + ".Results(" + strings.Join(rs, ", ") + ")"
				})
			}
			opts = append(opts, func() string {
				var rs []string
				for k := rlo; k < rhi; k++ {
					rs = append(rs, pr.wrap(fmt.Sprintf("&%s", rname(k))))
				}
				return n.cff + ".Results(" + strings.Join(rs, ", ") + ")"
			})
		}
		concOpt()
		for i := range s.Tasks {
			ts := &s.Tasks[i]
			opts = append(opts, func() string {
				var ins, outs, eins, eouts []string
				for k, in := range ts.In {
					ins = append(ins, fmt.Sprintf("a%d %s", k, pr.typIn(in)))
					if ts.Sp == "imported" {
						eins = append(eins, fmt.Sprintf("a%d %s", k, extType(in)))
					}
				}
				for _, o := range ts.Out {
					outs = append(outs, pr.typ(o))
					if ts.Sp == "imported" {
						eouts = append(eouts, extType(o))
					}
				}
				var extSig string
				var extBody []string
				if ts.Sp == "imported" {
					extSig = sig(names{ctx: "context"}, ts.Ctx, eins, eouts, ts.Err)
					extBody = taskBody(ts, "env", extHelpers)
				}
				fe := pr.fnExpr(ts.Sp, ts.Unit, sig(n, ts.Ctx, ins, outs, ts.Err), taskBody(ts, "env", pHelpers), extSig, extBody)
				parts := []string{pr.wrapz(fe, "nil")}
				var topts []func() string
				if ts.Pred != nil {
					topts = append(topts, func() string {
						var pins, pargs []string
						for k, in := range ts.Pred.In {
							_, tg := pHelpers(in)
							pins = append(pins, fmt.Sprintf("a%d %s", k, pr.typIn(in)))
							pargs = append(pargs, fmt.Sprintf("%s(a%d)", tg, k))
						}
						body := []string{fmt.Sprintf("return env.Pred(%d, %s%s)", ts.Pred.Unit, ctxArg(ts.Pred.Ctx), prefixComma(pargs))}
						pret := "bool"
						if ts.Pred.NamedBool {
							pret = "PB"
							body = []string{fmt.Sprintf("return PB(env.Pred(%d, %s%s))", ts.Pred.Unit, ctxArg(ts.Pred.Ctx), prefixComma(pargs))}
						}
						pe := pr.fnExpr(ts.Pred.Sp, ts.Pred.Unit, sig(n, ts.Pred.Ctx, pins, []string{pret}, false), body, "", nil)
						return n.cff + ".Predicate(" + pr.wrap(pe) + ")"
					})
				}
				if ts.Fallback {
					topts = append(topts, func() string {
						var fs []string
						for k, o := range ts.Out {
							mk, _ := pHelpers(o)
							fs = append(fs, pr.wrapz(fmt.Sprintf("%s(env.Fallback(%d, %d))", mk, ts.Unit, k), mk+"(0)"))
						}
						return n.cff + ".FallbackWith(" + strings.Join(fs, ", ") + ")"
					})
				}
				if ts.Invoke {
					topts = append(topts, func() string { return n.cff + ".Invoke(true)" })
				}
				if ts.Instrument {
					topts = append(topts, func() string { return n.cff + ".Instrument(" + pr.wrap(fmt.Sprintf("%q", rt.TaskName(ts.Unit))) + ")" })
				}
				// task options in an order derived from the spec's permutation
				for _, idx := range permFor(s.Order, len(topts), ts.Unit) {
					parts = append(parts, topts[idx]())
				}
				return n.cff + fmt.Sprintf(".Task( // %s unit %d\n\t\t\t", s.Name, ts.Unit) + strings.Join(parts, ",\n\t\t\t") + ",\n\t\t)"
			})
		}
		if s.InstrumentD {
			opts = append(opts, func() string { return n.cff + ".InstrumentFlow(" + pr.wrap(fmt.Sprintf("%q", rt.DirName(s))) + ")" })
		}
	} else {
		concOpt()
		switch s.COE {
		case "true", "false":
			opts = append(opts, func() string { return n.cff + ".ContinueOnError(" + pr.wrap(s.COE) + ")" })
		case "expr":
			opts = append(opts, func() string { return n.cff + ".ContinueOnError(" + pr.wrap("env.COEVal()") + ")" })
		case "bctrue": // a constant that is true in the build, false when cff ran
			opts = append(opts, func() string { return n.cff + ".ContinueOnError(" + pr.wrap("bcTrue") + ")" })
		case "bcfalse": // a constant that is false in the build, true when cff ran
			opts = append(opts, func() string { return n.cff + ".ContinueOnError(" + pr.wrap("bcFalse") + ")" })
		}
		ptaskExpr := func(pt *rt.PTaskSpec) string {
			if pt.Sp == "samemethod" {
				m := "PT"
				if pt.Ctx {
					m += "C"
				}
				if pt.Err {
					m += "E"
				}
				if m == "PT" {
					m = "PTV"
				}
				pr.pre = append(pr.pre, fmt.Sprintf("uh_%d := &unitHolder{Env: env, Unit: %d}\n_ = uh_%d // also used outside the directive", pt.Unit, pt.Unit, pt.Unit))
				return fmt.Sprintf("uh_%d.%s", pt.Unit, m)
			}
			if pt.Sp == "nextmethod" {
				// the same TEXT for different tasks: a method value of whatever a
				// factory returns next (the k-th evaluation binds the k-th listed task)
				m := "PT"
				if pt.Ctx {
					m += "C"
				}
				if pt.Err {
					m += "E"
				}
				if m == "PT" {
					m = "PTV"
				}
				s.NextUnits = append(s.NextUnits, pt.Unit)
				return "nextHolder(env)." + m
			}
			var body []string
			if pt.Err {
				body = []string{fmt.Sprintf("return env.PTask(%d, %s)", pt.Unit, ctxArg(pt.Ctx))}
			} else {
				body = []string{fmt.Sprintf("env.PTask(%d, %s)", pt.Unit, ctxArg(pt.Ctx))}
			}
			return pr.fnExpr(pt.Sp, pt.Unit, sig(n, pt.Ctx, nil, nil, pt.Err), body, "", nil)
		}
		for i := 0; i < len(s.PTasks); {
			pt := &s.PTasks[i]
			if pt.Group < 0 {
				opts = append(opts, func() string {
					parts := []string{pr.wrap(ptaskExpr(pt))}
					if pt.Instrument {
						parts = append(parts, n.cff+".Instrument("+pr.wrap(fmt.Sprintf("%q", rt.TaskName(pt.Unit)))+")")
					}
					return n.cff + ".Task(\n\t\t\t" + strings.Join(parts, ",\n\t\t\t") + ",\n\t\t)"
				})
				i++
				continue
			}
			j := i
			for j < len(s.PTasks) && s.PTasks[j].Group == pt.Group {
				j++
			}
			grp := s.PTasks[i:j]
			opts = append(opts, func() string {
				var parts []string
				for k := range grp {
					parts = append(parts, pr.wrap(ptaskExpr(&grp[k])))
				}
				return n.cff + ".Tasks(\n\t\t\t" + strings.Join(parts, ",\n\t\t\t") + ",\n\t\t)"
			})
			i = j
		}
		endExpr := func(e *rt.EndSpec) string {
			body := fmt.Sprintf("env.PTask(%d, %s)", e.Unit, ctxArg(e.Ctx))
			if e.Err {
				body = "return " + body
			}
			return pr.fnExpr("lit", e.Unit, sig(n, e.Ctx, nil, nil, e.Err), []string{body}, "", nil)
		}
		for i := range s.Slices {
			sl := &s.Slices[i]
			opts = append(opts, func() string {
				_, tg := pHelpers(sl.Elem)
				var ins []string
				idx := "-1"
				if sl.Index {
					ins = append(ins, "idx int")
					idx = "idx"
				}
				ins = append(ins, "v "+pr.typ(sl.Elem))
				body := fmt.Sprintf("env.Elem(%d, %s, %s, \"\", %s(v))", sl.Unit, ctxArg(sl.Ctx), idx, tg)
				if sl.Err {
					body = "return " + body
				}
				fe := pr.fnExpr(sl.Sp, sl.Unit, sig(n, sl.Ctx, ins, nil, sl.Err), []string{body}, "", nil)
				coll := fmt.Sprintf("mkL_%s(env.Coll(%d))", sl.Elem.Suffix(), sl.Coll)
				if sl.Named {
					coll = fmt.Sprintf("mkNL_%s(env.Coll(%d))", sl.Elem.Suffix(), sl.Coll)
				} else if sl.Boxed {
					pr.pre = append(pr.pre, fmt.Sprintf("bx_%d := box_%s{Items: %s}\n_ = bx_%d // also used outside the directive", sl.Unit, sl.Elem.Suffix(), coll, sl.Unit))
					coll = fmt.Sprintf("bx_%d.Items", sl.Unit)
				}
				collArg := ""
				if sl.PkgVar && !sl.Boxed && !pr.s.Wrap && pr.s.Bare {
					// a package-level variable (see SliceSpec.PkgVar)
					typ := "[]" + pr.typ(sl.Elem)
					if sl.Named {
						typ = "NL_" + sl.Elem.Suffix()
					}
					name := fmt.Sprintf("pc_%s_u%d", pr.s.Name, sl.Unit)
					pr.decls = append(pr.decls, fmt.Sprintf("var %s %s\n", name, typ))
					pr.pre = append(pr.pre, name+" = "+coll, "defer func() { "+name+" = nil }()")
					pr.poison = append(pr.poison, name+" = nil")
					collArg = name
				}
				parts := []string{pr.wrapz(fe, "nil")}
				if collArg != "" {
					parts = append(parts, collArg)
				} else {
					parts = append(parts, pr.wrapz(coll, "nil"))
				}
				if sl.End != nil {
					parts = append(parts, n.cff+".SliceEnd("+pr.wrap(endExpr(sl.End))+")")
				}
				return n.cff + ".Slice(\n\t\t\t" + strings.Join(parts, ",\n\t\t\t") + ",\n\t\t)"
			})
		}
		for i := range s.Maps {
			mp := &s.Maps[i]
			opts = append(opts, func() string {
				_, tg := pHelpers(mp.Elem)
				ktyp, kexpr, mk := "string", "k", "mkM_"
				switch mp.KeyK {
				case "int":
					ktyp, kexpr, mk = "int", "rt.MapKey(k)", "mkMI_"
				case "struct":
					ktyp, kexpr, mk = "MK", "rt.MapKey(k.A)", "mkMS_"
				}
				ins := []string{"k " + ktyp, "v " + pr.typ(mp.Elem)}
				body := fmt.Sprintf("env.Elem(%d, %s, -1, %s, %s(v))", mp.Unit, ctxArg(mp.Ctx), kexpr, tg)
				if mp.Err {
					body = "return " + body
				}
				fe := pr.fnExpr(mp.Sp, mp.Unit, sig(n, mp.Ctx, ins, nil, mp.Err), []string{body}, "", nil)
				parts := []string{pr.wrapz(fe, "nil"), pr.wrapz(mapCollExpr(mk, mp), "nil")}
				if mp.End != nil {
					parts = append(parts, n.cff+".MapEnd("+pr.wrap(endExpr(mp.End))+")")
				}
				return n.cff + ".Map(\n\t\t\t" + strings.Join(parts, ",\n\t\t\t") + ",\n\t\t)"
			})
		}
		if s.InstrumentD {
			opts = append(opts, func() string { return n.cff + ".InstrumentParallel(" + pr.wrap(fmt.Sprintf("%q", rt.DirName(s))) + ")" })
		}
	}
	opts = append(opts, emitterExpr()...)

	// Render: ctx first (argument 0), then options in listing order.
	ctxE := pr.wrap("ctx")
	var rendered []string
	for i, idx := range permFor(s.Order, len(opts), 0) {
		o := opts[idx]()
		if s.Shadow {
			o = reEnv.ReplaceAllString(o, shadowFor(o, i))
		}
		if s.Paren {
			o = "(" + o + ")"
		}
		rendered = append(rendered, o)
	}
	if s.Bare && !s.Wrap {
		// the last argument expression of the directive poisons every bare local
		body := strings.Join(pr.poison, "; ")
		o := fmt.Sprintf("%s.Concurrency(rt.After(env.ConcN(), func() { %s }))", n.cff, body)
		if s.Paren {
			o = "(" + o + ")"
		}
		rendered = append(rendered, o)
	}
	if s.Shadow {
		ctxE = reEnv.ReplaceAllString(ctxE, shadowNames[0])
		for i, p := range pr.pre {
			pr.pre[i] = reEnv.ReplaceAllString(p, shadowFor(p, i+3))
		}
	}
	s.NArgs = pr.argK

	var x w
	x.f("// %s runs one generated %s.", s.Name, s.Kind)
	switch s.Encl {
	case "generic":
		x.f("func %s(env *rt.Env, ctx %s.Context) error {", s.Name, n.ctx)
		x.f("\treturn generic_%s(env, ctx, 7)", s.Name)
		x.f("}")
		x.f("")
		x.f("func generic_%s[X any](env *rt.Env, ctx %s.Context, xv X) (err error) {", s.Name, n.ctx)
	default:
		x.f("func %s(env *rt.Env, ctx %s.Context) (err error) {", s.Name, n.ctx)
	}
	x.ind++
	if s.Encl == "closure" {
		// (the result is deliberately not named err: the C16 oracle recognises
		// generated closures by their "func() (err error)" shape)
		x.f("return func() (res error) {")
		x.ind++
		x.f("var err error")
	}
	if s.Shadow {
		for _, nm := range shadowNames {
			if nm == constShadowName && strings.HasPrefix(s.Conc, "const:") {
				x.f("const %s = %s", nm, strings.TrimPrefix(s.Conc, "const:"))
				continue
			}
			x.f("%s := env", nm)
			x.f("_ = %s", nm)
		}
	}
	if s.Extra >= 1 {
		x.f("if e := %s.Parallel(ctx, %s.Task(func() {})); e != nil {", n.cff, n.cff)
		x.f("\treturn e")
		x.f("}")
	}
	if pr.usesHolder() {
		x.f("hold := &holder_%s{env: env}", s.Name)
		pr.decls = append(pr.decls, fmt.Sprintf("type holder_%s struct{ env *rt.Env }\n", s.Name))
	}
	for _, d := range resultDecls {
		x.f("%s", d)
	}
	for _, p := range pr.pre {
		x.f("%s", strings.ReplaceAll(p, "\n\t\t", "\n\t"))
	}
	dir := "Flow"
	if s.Kind == "parallel" {
		dir = "Parallel"
	}
	// the statement that holds the directive call (line layout is the same for all)
	stPre, stPost := "err = ", ""
	switch s.Stmt {
	case "ifinit":
		stPre, stPost = "if dErr := ", "; dErr != nil {\n\terr = dErr\n}"
	case "switch":
		stPre, stPost = "switch dErr := ", "; {\ncase dErr != nil:\n\terr = dErr\n}"
	case "arg":
		stPre, stPost = "err = func(e error) error { return e }(", ")"
	case "field":
		stPre, stPost = "err = struct{ e error }{e: ", "}.e"
	case "tuple":
		stPre, stPost = "err, _ = ", ", 0"
	}
	x.f("%s%s.%s(%s,", stPre, n.cff, dir, ctxE)
	for _, r := range rendered {
		x.f("\t%s,", r)
	}
	if s.Encl == "generic" && s.Kind == "flow" {
		// the type parameter takes part in the flow
		x.f("\t%s.Params(xv),", n.cff)
		x.f("\t%s.Task(func(x X) { _ = x }, %s.Invoke(true)),", n.cff, n.cff)
	}
	for i, l := range strings.Split(")"+stPost, "\n") {
		if i == 0 {
			x.f("%s", l)
		} else {
			x.f("%s", l)
		}
	}
	for _, r := range resultReads {
		x.f("%s", r)
	}
	if s.Extra >= 2 {
		x.f("if e := %s.Flow(ctx, %s.Task(func() {}, %s.Invoke(true))); e != nil && err == nil {", n.cff, n.cff, n.cff)
		x.f("\treturn e")
		x.f("}")
	}
	x.f("return err")
	if s.Encl == "closure" {
		x.ind--
		x.f("}()")
	}
	x.ind--
	x.f("}")
	return x.sb.String()
}

// permFor derives a permutation of 0..n-1 from the spec's Order, salted so
// that different option lists of one directive get different orders.
func permFor(order []int, n, salt int) []int {
	type kv struct{ k, i int }
	var l []kv
	for i := 0; i < n; i++ {
		k := i
		if len(order) > 0 {
			k = order[(i+salt)%len(order)]
		}
		l = append(l, kv{k, i})
	}
	sort.SliceStable(l, func(a, b int) bool { return l[a].k < l[b].k })
	out := make([]int, n)
	for i, e := range l {
		out[i] = e.i
	}
	return out
}

// shadowNames are identifiers the generated code introduces itself; in
// shadow mode the enclosing function declares locals with these names and
// uses them inside the directive's argument expressions.
var shadowNames = []string{"sched", "emitter", "tasks", "task0", "v1", "flowInfo", "startTime", "schedInfo", "val", "idx", "key",
	"flowEmitter", "parallelEmitter", "taskEmitter", "pred1", "p0", "recovered", "schedEmitter", "directiveInfo", "parallelInfo", "sliceTask0Slice", "mapTask0Jobs"}

// constShadowName is the shadow name that a directive with a constant
// concurrency limit declares as a constant holding that limit.
const constShadowName = "schedInfo"

var reEnv = regexp.MustCompile(`\benv\b`)

// shadowFor picks the k-th shadow name, skipping names the text already uses
// as an identifier of its own (a slice function's idx parameter, ...).
func shadowFor(text string, k int) string {
	for d := 0; d < len(shadowNames); d++ {
		n := shadowNames[(k+d)%len(shadowNames)]
		if n == constShadowName {
			continue // may be declared as a constant (the concurrency limit), never stands for env
		}
		if !regexp.MustCompile(`\b` + n + `\b`).MatchString(text) {
			return n
		}
	}
	return shadowNames[k%len(shadowNames)]
}

var (
	reExt  = regexp.MustCompile(`\bext\.`)
	reExt2 = regexp.MustCompile(`\bext2\.`)
	reExt4 = regexp.MustCompile(`\bext4\.`)
)

// decor returns surrounding declarations (kept verbatim by cff).
var decorPool = []string{
	"// Answer is a surrounding constant.\nconst Answer%[1]d = 42\n",
	"var counter%[1]d int\n\nfunc bump%[1]d() int {\n\tcounter%[1]d++ // side effect\n\treturn counter%[1]d\n}\n",
	"type pair%[1]d struct {\n\tA, B int // fields\n}\n\nfunc (p pair%[1]d) Sum() int { return p.A + p.B }\n",
	"/* block comment %[1]d */\nfunc helper%[1]d(xs ...int) (n int) {\n\tfor _, x := range xs {\n\t\tn += x\n\t}\n\treturn\n}\n",
	"var table%[1]d = map[string][]int{\n\t\"a\": {1, 2, 3},\n\t\"b\": nil,\n}\n",
	"type iface%[1]d interface {\n\tDo(int) error\n}\n",
	"func generic%[1]d[T any](v T) T { return v }\n",
}

// RenderFile renders one program file and returns the text plus functions
// that must be added to package ext.
func RenderFile(f *FileSpec, pkgAuto bool) (src, side string, extFns []string) {
	return RenderFileAs(f, pkgAuto, "")
}

// RenderFileAs renders the file with every program registered under its name
// plus regSuffix (used for the twin package processed in modifier mode).
func RenderFileAs(f *FileSpec, pkgAuto bool, regSuffix string) (src, side string, extFns []string) {
	n := names{ctx: "context", cff: "cff"}
	if f.CtxAlias != "" {
		n.ctx = f.CtxAlias
	}
	if f.CffAlias != "" {
		n.cff = f.CffAlias
	}
	var bodies, decls []string
	for _, s := range f.Progs {
		s.File = f.Name
		s.AutoInstr = pkgAuto
		pr := &progRender{s: s, n: n}
		bodies = append(bodies, pr.render())
		decls = append(decls, pr.decls...)
		extFns = append(extFns, pr.extFns...)
	}
	all := strings.Join(bodies, "\n")
	needExt := reExt.MatchString(all)
	needExt2 := reExt2.MatchString(all)
	needExt4 := reExt4.MatchString(all)
	side = strings.Join(decls, "\n")
	var x w
	if f.Layout&64 != 0 {
		// a line comment that contains the opening of a general comment
		x.f("// Generated from the templates under ./*/flows by hand.")
		x.f("")
	}
	x.sb.WriteString(f.Header)
	if f.Layout&8 == 0 || f.Layout&4 != 0 || strings.Contains(f.Header, "+build") {
		x.f("")
	} // else: the //go:build line sits directly above the package clause (legal; gofmt would add a blank line)
	if f.Layout&4 != 0 {
		// tool directives and a doc comment between the constraint and the package clause
		x.f("//go:generate echo regenerate %s", f.Name)
		x.f("")
		x.f("// Package p is documented here, right above the clause.")
	}
	if f.Layout&16 != 0 && f.Layout&8 == 0 {
		// the file was produced by a preprocessor: a //line directive attributes
		// the package clause to the template, a second one the rest to this
		// file again - with other line numbers and, as always after a
		// directive without a column, no column information
		x.f("//line %s.in:9", f.Name)
	}
	x.f("package p")
	if f.Layout&16 != 0 && f.Layout&8 == 0 {
		x.f("//line %s:40", f.Name)
	}
	x.f("")
	x.f("import (")
	imp := func(alias, path string) {
		if alias != "" {
			x.f("\t%s %q", alias, path)
		} else {
			x.f("\t%q", path)
		}
	}
	imp(f.CtxAlias, "context")
	switch f.TimeImp {
	case "plain":
		imp("", "time")
	case "alias":
		imp("tm", "time")
	case "collide":
		imp("time", "vcase/ext3")
	}
	imp(f.CffAlias, "go.uber.org/cff")
	switch f.OddImp {
	case 1:
		imp("", "vcase/odd/v2") // package name (odd) differs from the last path element
	case 2:
		imp("", "math/rand/v2") // likewise, from the standard library
	case 3:
		// package debug in a directory not named after it: the name the
		// import binds is one the generated code needs for runtime/debug
		imp("", "vcase/twin/v3")
	}
	if needExt {
		imp("", "vcase/ext")
	}
	if needExt2 {
		imp("", "vcase/ext2")
	}
	if needExt4 {
		imp("", "vcase/ext4/v2")
	}
	imp("", "vcase/rt")
	x.f(")")
	x.f("")
	switch f.TimeImp {
	case "plain":
		x.f("var _ = time.Second")
	case "alias":
		x.f("var _ = tm.Second")
	case "collide":
		x.f("var _ = time.Marker")
	}
	switch f.OddImp {
	case 1:
		x.f("var _ = odd.Marker // used only outside the directives")
	case 2:
		x.f("func oddRand%d() int { return rand.IntN(3) } // used only outside the directives", f.Idx)
	case 3:
		x.f("var _ = debug.Marker // used only outside the directives")
	}
	x.f("func init() {")
	for _, s := range f.Progs {
		x.f("\trt.Register(%q, %s)", s.Name+regSuffix, s.Name)
	}
	x.f("}")
	x.f("")
	for i, b := range bodies {
		if f.Decor != 0 {
			d := decorPool[(f.Decor+i)%len(decorPool)]
			x.sb.WriteString(fmt.Sprintf(d, f.Idx*100+i))
			x.sb.WriteString("\n")
		}
		if f.Layout&128 != 0 {
			// the function was expanded from a template in another directory
			// (E-GEN C17 only: positions, hence diagnostics and implied
			// instrumentation names, then refer to that file)
			x.f("//line tmpl/%s.tmpl:%d", strings.TrimSuffix(f.Name, ".go"), 7+i)
		}
		x.sb.WriteString(b)
		x.sb.WriteString("\n")
	}
	src = x.sb.String()
	// implied -auto-instrument names: "<file>.<line of the task's function expression>"
	for _, s := range f.Progs {
		s.AutoNames = nil
		if s.Kind != "flow" {
			continue
		}
		// Observed behaviour of cff (not covered by a listed property, see
		// DESIGN.md section 0): -auto-instrument only applies to tasks that are
		// listed AFTER the cff.InstrumentFlow option, because the option list
		// is processed in order. The model follows the tool here.
		instrLine := -1
		inProg := false
		lineDir := 0 // 1-based line of the "//line <file>:40" directive, if any
		for i, line := range strings.Split(src, "\n") {
			if line == "//line "+f.Name+":40" {
				lineDir = i + 1
			}
			if strings.HasPrefix(line, "// "+s.Name+" runs one generated") {
				inProg = true
			}
			if inProg && instrLine < 0 && strings.Contains(line, ".InstrumentFlow(") {
				instrLine = i
			}
		}
		for i, line := range strings.Split(src, "\n") {
			var unit int
			if instrLine < 0 || i < instrLine {
				continue
			}
			if idx := strings.Index(line, "// "+s.Name+" unit "); idx >= 0 {
				if _, err := fmt.Sscanf(line[idx:], "// "+s.Name+" unit %d", &unit); err == nil {
					if s.AutoNames == nil {
						s.AutoNames = map[int]string{}
					}
					ln := i + 2 // i is 0-based; the expression is on the next line
					if lineDir > 0 && ln > lineDir {
						// the tool names the task after the position as adjusted by
						// the file's own //line directive (the line after it is line 40)
						ln = 40 + (ln - lineDir - 1)
					}
					s.AutoNames[unit] = fmt.Sprintf("%s.%d", f.Name, ln)
				}
			}
		}
	}
	// byte-level layout variants (line numbers unchanged)
	if f.Layout&2 != 0 {
		src = strings.TrimRight(src, "\n") // no newline at the end of the file
	}
	if f.Layout&1 != 0 {
		src = strings.ReplaceAll(src, "\n", "\r\n") // CRLF line endings
	}
	if f.Layout&32 != 0 {
		src = "\ufeff" + src // UTF-8 byte order mark (legal at the very beginning of a Go file)
	}
	return src, side, extFns
}

// SideSource wraps the out-of-line declarations of a program file (top-level
// task functions, method holders, function factories) in a file that has no
// cff build tag and is therefore never touched by the generator.
func SideSource(side string) string {
	var x w
	x.f("package p")
	x.f("")
	x.f("import (")
	x.f("\t\"context\"")
	x.f("")
	x.f("\t\"vcase/ext\"")
	x.f("\t\"vcase/ext2\"")
	x.f("\t\"vcase/ext4/v2\"")
	x.f("\t\"vcase/rt\"")
	x.f(")")
	x.f("")
	x.f("var (\n\t_ = context.Background\n\t_ = ext.MkW1\n\t_ = ext2.MkU1\n\t_ = ext4.MkV1\n\t_ = rt.MapKey\n)")
	x.f("")
	x.sb.WriteString(side)
	return x.sb.String()
}

// elemKindsForColl lists the element types collections may have.
var collElemTypes = func() []rt.TypeRef {
	var out []rt.TypeRef
	for _, k := range []string{"T", "P", "N", "S", "I"} {
		for i := 1; i <= 3; i++ {
			out = append(out, rt.TypeRef{K: k, I: i})
		}
	}
	return append(out, rt.TypeRef{K: "int"}, rt.TypeRef{K: "string"})
}()

// SupportSource is the static support file of package p.
func SupportSource() string {
	var x w
	x.f("package p")
	x.f("")
	x.f("import (")
	x.f("\t\"context\"")
	x.f("\t\"strconv\"")
	x.f("")
	x.f("\t\"vcase/ext\"")
	x.f("\t\"vcase/ext2\"")
	x.f("\t\"vcase/ext4/v2\"")
	x.f("\t\"vcase/rt\"")
	x.f(")")
	x.f("")
	x.f("var _ = rt.MapKey")
	x.f("")
	x.f("// unitHolder binds one parallel task: several tasks of a directive are written as the")
	x.f("// SAME method of DIFFERENT receivers (a.PTC, b.PTC).")
	x.f("type unitHolder struct {\n\tEnv  *rt.Env\n\tUnit int\n}")
	x.f("// nextHolder binds the task that is next in the order in which the directive lists them.")
	x.f("func nextHolder(env *rt.Env) *unitHolder { return &unitHolder{Env: env, Unit: env.NextUnit()} }")
	x.f("func (h *unitHolder) PTCE(ctx context.Context) error { return h.Env.PTask(h.Unit, ctx) }")
	x.f("func (h *unitHolder) PTC(ctx context.Context)         { h.Env.PTask(h.Unit, ctx) }")
	x.f("func (h *unitHolder) PTE() error                     { return h.Env.PTask(h.Unit, nil) }")
	x.f("func (h *unitHolder) PTV()                           { h.Env.PTask(h.Unit, nil) }")
	x.f("")
	x.f("// G is a generic carrier.")
	x.f("type G[T any] struct {\n\tV   T\n\tTag uint64\n}")
	x.f("func (v G[T]) Tag1() uint64 { return v.Tag }\nfunc (v G[T]) Tag2() uint64 { return v.Tag }\nfunc (v G[T]) Tag3() uint64 { return v.Tag }")
	for i := 1; i <= 6; i++ {
		x.f("type T%d struct{ Tag uint64 }", i)
		// (every T implements every I: a T value is assignable to an I parameter,
		// so a generator that passes the wrong variable still compiles)
		x.f("func (v T%[1]d) Tag1() uint64 { return v.Tag }\nfunc (v T%[1]d) Tag2() uint64 { return v.Tag }\nfunc (v T%[1]d) Tag3() uint64 { return v.Tag }", i)
		x.f("func mk_T%[1]d(t uint64) T%[1]d { return T%[1]d{Tag: t} }", i)
		x.f("func tag_T%[1]d(v T%[1]d) uint64 { return v.Tag }", i)
		x.f("func mk_P%[1]d(t uint64) *T%[1]d {\n\tif t == 0 {\n\t\treturn nil\n\t}\n\treturn &T%[1]d{Tag: t}\n}", i)
		x.f("func tag_P%[1]d(v *T%[1]d) uint64 {\n\tif v == nil {\n\t\treturn 0\n\t}\n\treturn v.Tag\n}", i)
		x.f("func mk_L%[1]d(t uint64) []T%[1]d {\n\tif t == 0 {\n\t\treturn nil\n\t}\n\treturn []T%[1]d{{Tag: t}}\n}", i)
		x.f("func tag_L%[1]d(v []T%[1]d) uint64 {\n\tif len(v) == 0 {\n\t\treturn 0\n\t}\n\treturn v[0].Tag\n}", i)
		x.f("func mk_M%[1]d(t uint64) map[string]T%[1]d {\n\tif t == 0 {\n\t\treturn nil\n\t}\n\treturn map[string]T%[1]d{\"x\": {Tag: t}}\n}", i)
		x.f("func tag_M%[1]d(v map[string]T%[1]d) uint64 { return v[\"x\"].Tag }", i)
		x.f("func mk_G%[1]d(t uint64) G[T%[1]d] { return G[T%[1]d]{Tag: t} }", i)
		x.f("func tag_G%[1]d(v G[T%[1]d]) uint64 { return v.Tag }", i)
	}
	for i := 1; i <= 4; i++ {
		x.f("type N%d uint64", i)
		x.f("func (v N%[1]d) Tag1() uint64 { return uint64(v) }\nfunc (v N%[1]d) Tag2() uint64 { return uint64(v) }\nfunc (v N%[1]d) Tag3() uint64 { return uint64(v) }", i)
		x.f("func mk_N%[1]d(t uint64) N%[1]d { return N%[1]d(t) }", i)
		x.f("func tag_N%[1]d(v N%[1]d) uint64 { return uint64(v) }", i)
		x.f("type S%d string", i)
		x.f("func (v S%[1]d) Tag1() uint64 { return tag_string(string(v)) }\nfunc (v S%[1]d) Tag2() uint64 { return tag_string(string(v)) }\nfunc (v S%[1]d) Tag3() uint64 { return tag_string(string(v)) }", i)
		x.f("func mk_S%[1]d(t uint64) S%[1]d { return S%[1]d(mk_string(t)) }", i)
		x.f("func tag_S%[1]d(v S%[1]d) uint64 { return tag_string(string(v)) }", i)
		x.f("func mk_W%[1]d(t uint64) ext.W%[1]d { return ext.MkW%[1]d(t) }", i)
		x.f("func tag_W%[1]d(v ext.W%[1]d) uint64 { return ext.TagW%[1]d(v) }", i)
		x.f("func mk_U%[1]d(t uint64) ext2.U%[1]d { return ext2.MkU%[1]d(t) }", i)
		x.f("func tag_U%[1]d(v ext2.U%[1]d) uint64 { return ext2.TagU%[1]d(v) }", i)
		x.f("func mk_V%[1]d(t uint64) ext4.V%[1]d { return ext4.MkV%[1]d(t) }", i)
		x.f("func tag_V%[1]d(v ext4.V%[1]d) uint64 { return ext4.TagV%[1]d(v) }", i)
	}
	for i := 1; i <= 3; i++ {
		x.f("type I%d interface{ Tag%d() uint64 }", i, i)
		x.f("type impl%d struct{ t uint64 }", i)
		x.f("func (v impl%[1]d) Tag%[1]d() uint64 { return v.t }", i)
		x.f("func mk_I%[1]d(t uint64) I%[1]d {\n\tif t == 0 {\n\t\treturn nil\n\t}\n\treturn impl%[1]d{t}\n}", i)
		x.f("func tag_I%[1]d(v I%[1]d) uint64 {\n\tif v == nil {\n\t\treturn 0\n\t}\n\treturn v.Tag%[1]d()\n}", i)
	}
	for i := 1; i <= 3; i++ {
		a, xx, ff := rt.TypeRef{K: "A", I: i}.Go(), rt.TypeRef{K: "X", I: i}.Go(), rt.TypeRef{K: "F", I: i}.Go()
		x.f("func mk_A%d(t uint64) %s {\n\tvar v %s\n\tv[0].Tag = t\n\treturn v\n}", i, a, a)
		x.f("func tag_A%d(v %s) uint64 { return v[0].Tag }", i, a)
		x.f("func mk_X%d(t uint64) %s {\n\tvar v %s\n\tv.Tag = t\n\treturn v\n}", i, xx, xx)
		x.f("func tag_X%d(v %s) uint64 { return v.Tag }", i, xx)
		call := []string{"v()", "v(0)", "v(\"\", \"\")"}[i-1]
		lit := []string{"func() uint64 { return t }", "func(int) uint64 { return t }", "func(a, b string) uint64 { return t }"}[i-1]
		x.f("func mk_F%d(t uint64) %s {\n\tif t == 0 {\n\t\treturn nil\n\t}\n\treturn %s\n}", i, ff, lit)
		x.f("func tag_F%d(v %s) uint64 {\n\tif v == nil {\n\t\treturn 0\n\t}\n\treturn %s\n}", i, ff, call)
	}
	x.f("func mk_int(t uint64) int { return int(t) }")
	x.f("func tag_int(v int) uint64 { return uint64(v) }")
	x.f("func mk_string(t uint64) string {\n\tif t == 0 {\n\t\treturn \"\"\n\t}\n\treturn strconv.FormatUint(t, 10)\n}")
	x.f("func tag_string(v string) uint64 {\n\tif v == \"\" {\n\t\treturn 0\n\t}\n\tn, _ := strconv.ParseUint(v, 10, 64)\n\treturn n\n}")
	x.f("// PB is a declared boolean type (predicate results).\ntype PB bool")
	x.f("// MK is a comparable struct used as a map key.\ntype MK struct {\n\tA int\n\tB string\n}")
	for _, e := range collElemTypes {
		sfx, typ := e.Suffix(), e.Go()
		x.f("func mkL_%[1]s(tags []uint64) []%[2]s {\n\tif tags == nil {\n\t\treturn nil\n\t}\n\tout := make([]%[2]s, len(tags))\n\tfor i, t := range tags {\n\t\tout[i] = mk_%[1]s(t)\n\t}\n\treturn out\n}", sfx, typ)
		x.f("func mkM_%[1]s(tags []uint64) map[string]%[2]s {\n\tif tags == nil {\n\t\treturn nil\n\t}\n\tout := make(map[string]%[2]s, len(tags))\n\tfor i, t := range tags {\n\t\tout[rt.MapKey(i)] = mk_%[1]s(t)\n\t}\n\treturn out\n}", sfx, typ)
		x.f("func mkMI_%[1]s(tags []uint64) map[int]%[2]s {\n\tif tags == nil {\n\t\treturn nil\n\t}\n\tout := make(map[int]%[2]s, len(tags))\n\tfor i, t := range tags {\n\t\tout[i] = mk_%[1]s(t)\n\t}\n\treturn out\n}", sfx, typ)
		x.f("func mkMS_%[1]s(tags []uint64) map[MK]%[2]s {\n\tif tags == nil {\n\t\treturn nil\n\t}\n\tout := make(map[MK]%[2]s, len(tags))\n\tfor i, t := range tags {\n\t\tout[MK{A: i, B: \"b\"}] = mk_%[1]s(t)\n\t}\n\treturn out\n}", sfx, typ)
		x.f("type NmkM_%[1]s map[string]%[2]s", sfx, typ)
		x.f("type NmkMI_%[1]s map[int]%[2]s", sfx, typ)
		x.f("type NmkMS_%[1]s map[MK]%[2]s", sfx, typ)
		x.f("// box_%[1]s holds collections in struct fields: several collections of a directive are\n// written as the SAME field of DIFFERENT values (x.Items, y.Items).\ntype box_%[1]s struct {\n\tItems []%[2]s\n\tM     map[string]%[2]s\n}", sfx, typ)
		if e.K == "T" {
			x.f("type NL_%[1]s []%[2]s", sfx, typ)
			x.f("func mkNL_%[1]s(tags []uint64) NL_%[1]s { return NL_%[1]s(mkL_%[1]s(tags)) }", sfx)
		}
	}
	return x.sb.String()
}

// ExtSource renders package ext (imported by program files that need it).
func ExtSource(fns []string) string {
	var x w
	x.f("// Package ext is imported by generated program files.")
	x.f("package ext")
	x.f("")
	x.f("import (")
	x.f("\t\"context\"")
	x.f("\t\"strconv\"")
	x.f("")
	x.f("\t\"vcase/ext2\"")
	x.f("\t\"vcase/ext4/v2\"")
	x.f("\t\"vcase/rt\"")
	x.f(")")
	x.f("")
	x.f("var (\n\t_ = context.Background\n\t_ = rt.MapKey\n\t_ = ext2.MkU1\n\t_ = ext4.MkV1\n)")
	for i := 1; i <= 4; i++ {
		x.f("// W%d is a type of an imported package.", i)
		x.f("type W%d struct{ Tag uint64 }", i)
		x.f("// MkW%d builds a W%d.", i, i)
		x.f("func MkW%[1]d(t uint64) W%[1]d { return W%[1]d{Tag: t} }", i)
		x.f("// TagW%d reads the tag.", i)
		x.f("func TagW%[1]d(v W%[1]d) uint64 { return v.Tag }", i)
	}
	x.f("// MkInt builds an int.")
	x.f("func MkInt(t uint64) int { return int(t) }")
	x.f("// TagInt reads the tag.")
	x.f("func TagInt(v int) uint64 { return uint64(v) }")
	x.f("// MkString builds a string.")
	x.f("func MkString(t uint64) string {\n\tif t == 0 {\n\t\treturn \"\"\n\t}\n\treturn strconv.FormatUint(t, 10)\n}")
	x.f("// TagString reads the tag.")
	x.f("func TagString(v string) uint64 {\n\tif v == \"\" {\n\t\treturn 0\n\t}\n\tn, _ := strconv.ParseUint(v, 10, 64)\n\treturn n\n}")
	for _, fn := range fns {
		x.sb.WriteString("\n" + fn)
	}
	return x.sb.String()
}

// Ext2Source renders package ext2 (never imported by program files).
func Ext2Source() string {
	var x w
	x.f("// Package ext2 holds types that program files use without importing the package.")
	x.f("package ext2")
	for i := 1; i <= 4; i++ {
		x.f("// U%d is a type of a package the program files do not import.", i)
		x.f("type U%d struct{ Tag uint64 }", i)
		x.f("// MkU%d builds a U%d.", i, i)
		x.f("func MkU%[1]d(t uint64) U%[1]d { return U%[1]d{Tag: t} }", i)
		x.f("// TagU%d reads the tag.", i)
		x.f("func TagU%[1]d(v U%[1]d) uint64 { return v.Tag }", i)
	}
	return x.sb.String()
}

// Ext4Source renders package ext4, which lives at the major-version import
// path vcase/ext4/v2 and is never imported by program files.
func Ext4Source() string {
	var x w
	x.f("// Package ext4 lives at a major-version import path (vcase/ext4/v2).")
	x.f("package ext4")
	for i := 1; i <= 4; i++ {
		x.f("// V%d is a type of a package the program files do not import.", i)
		x.f("type V%d struct{ Tag uint64 }", i)
		x.f("// MkV%d builds a V%d.", i, i)
		x.f("func MkV%[1]d(t uint64) V%[1]d { return V%[1]d{Tag: t} }", i)
		x.f("// TagV%d reads the tag.", i)
		x.f("func TagV%[1]d(v V%[1]d) uint64 { return v.Tag }", i)
	}
	return x.sb.String()
}

// WriteModule writes the whole case module (module vcase) under dir.
// rtDir is the directory of the rt package to copy; repo the cff checkout.
func WriteModule(dir string, p *PackageSpec, rtDir, repo string) error {
	files := map[string]string{}
	files["go.mod"] = fmt.Sprintf("module vcase\n\ngo 1.19\n\nrequire (\n\tgo.uber.org/cff v0.0.0\n\tgo.uber.org/multierr v1.11.0\n)\n\nreplace go.uber.org/cff => %s\n", repo)
	var extFns []string
	for _, f := range p.Files {
		src, side, fns := RenderFile(f, p.AutoInstr)
		files["p/"+f.Name] = src
		if side != "" {
			files["p/"+strings.TrimSuffix(f.Name, ".go")+"_decls.go"] = SideSource(side)
		}
		extFns = append(extFns, fns...)
		if p.Twin {
			src, side, _ := RenderFileAs(f, p.AutoInstr, "@mod")
			files["pm/"+f.Name] = src
			if side != "" {
				files["pm/"+strings.TrimSuffix(f.Name, ".go")+"_decls.go"] = SideSource(side)
			}
		}
	}
	if p.Twin {
		files["pm/support.go"] = SupportSource()
	}
	files["p/support.go"] = SupportSource()
	files["ext/ext.go"] = ExtSource(extFns)
	files["ext2/ext2.go"] = Ext2Source()
	files["ext4/v2/ext4.go"] = Ext4Source()
	files["twin/v3/dbg.go"] = "// Package debug lives in a directory that is not named after it.\npackage debug\n\n// Marker is referenced by importing files.\nconst Marker = 3\n"
	files["odd/v2/odd.go"] = "// Package odd lives in a directory that is not named after it.\npackage odd\n\n// Marker is referenced by importing files.\nconst Marker = 2\n"
	bc := func(tag string, t, f bool, n int) string {
		return fmt.Sprintf("//go:build %s\n\npackage p\n\n// Constants whose value depends on the build configuration. cff runs without\n// the verifb tag, the program is built with it.\nconst (\n\tbcTrue  = %v\n\tbcFalse = %v\n\tbcN     = %d\n)\n", tag, t, f, n)
	}
	files["p/bc_on.go"] = bc("verifb", true, false, 3)
	files["p/bc_off.go"] = bc("!verifb", false, true, 1)
	if p.Twin {
		files["pm/bc_on.go"] = bc("verifb", true, false, 3)
		files["pm/bc_off.go"] = bc("!verifb", false, true, 1)
	}
	files["ext3/ext3.go"] = "// Package ext3 is imported under names that collide with packages generated code uses.\npackage ext3\n\n// Marker is referenced by importing files.\nconst Marker = 3\n"
	b, _ := json.MarshalIndent(p, "", " ")
	files["specs.json"] = string(b)
	ents, err := os.ReadDir(rtDir)
	if err != nil {
		return err
	}
	for _, e := range ents {
		if strings.HasSuffix(e.Name(), ".go") && !strings.HasSuffix(e.Name(), "_test.go") {
			c, err := os.ReadFile(filepath.Join(rtDir, e.Name()))
			if err != nil {
				return err
			}
			files["rt/"+e.Name()] = string(c)
		}
	}
	if sum, err := os.ReadFile(filepath.Join(repo, "go.sum")); err == nil {
		files["go.sum"] = string(sum)
	}
	for name, c := range files {
		fp := filepath.Join(dir, name)
		if err := os.MkdirAll(filepath.Dir(fp), 0o755); err != nil {
			return err
		}
		if err := os.WriteFile(fp, []byte(c), 0o644); err != nil {
			return err
		}
	}
	return nil
}
