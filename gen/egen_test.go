package verifx

import (
	"bytes"
	"crypto/sha256"
	"encoding/hex"
	"encoding/json"
	"fmt"
	"go/ast"
	"go/build/constraint"
	"go/parser"
	"go/printer"
	"go/token"
	"os"
	"path/filepath"
	"sort"
	"strconv"
	"strings"
	"testing"
	"time"

	"go.uber.org/cff/verifx/rt"
	"golang.org/x/tools/go/ast/astutil"
	"pgregory.net/rapid"
)

// Engine E-GEN: properties of the generator as a text transformer (C13, C14,
// C16, C17, C20a), decided on the output of the freshly built cff binary.

var directiveNames = map[string]bool{"Flow": true, "Parallel": true, "Params": true, "Results": true, "Task": true, "Tasks": true,
	"Slice": true, "SliceEnd": true, "Map": true, "MapEnd": true, "Concurrency": true, "ContinueOnError": true, "WithEmitter": true,
	"InstrumentFlow": true, "InstrumentParallel": true, "Instrument": true, "Predicate": true, "FallbackWith": true, "Invoke": true}

// genFail is the failure record of E-GEN.
type genFail struct {
	Prop     string            `json:"property"`
	Engine   string            `json:"engine"`
	Package  *PackageSpec      `json:"package,omitempty"`
	Raw      map[string]string `json:"raw,omitempty"` // raw probe sources (path -> text), instead of Package
	Flags    []string          `json:"flags,omitempty"`
	Tags     string            `json:"tags,omitempty"`
	Expect   string            `json:"expect,omitempty"` // raw probes: accept (default) | reject
	Findings []rt.Finding      `json:"findings"`
	Sources  map[string]string `json:"sources,omitempty"`
	Output   string            `json:"output,omitempty"`
}

func dirSnapshot(dir string) map[string]string {
	m := map[string]string{}
	filepath.Walk(dir, func(p string, info os.FileInfo, err error) error {
		if err != nil || info.IsDir() {
			return nil
		}
		b, err := os.ReadFile(p)
		if err != nil {
			return nil
		}
		h := sha256.Sum256(b)
		rel, _ := filepath.Rel(dir, p)
		m[rel] = hex.EncodeToString(h[:])
		return nil
	})
	return m
}

func genName(n string) string {
	if strings.HasSuffix(n, "_test.go") {
		return strings.TrimSuffix(n, "_test.go") + "_gen_test.go"
	}
	return strings.TrimSuffix(n, ".go") + "_gen.go"
}

// cffImportName returns the local name of go.uber.org/cff in the file ("" if not imported).
func cffImportName(f *ast.File) string {
	for _, imp := range f.Imports {
		p, _ := strconv.Unquote(imp.Path.Value)
		if p == "go.uber.org/cff" {
			if imp.Name != nil {
				return imp.Name.Name
			}
			return "cff"
		}
	}
	return ""
}

// remainingDirectives lists calls of code-generation directives in a file.
func remainingDirectives(f *ast.File) []string {
	name := cffImportName(f)
	if name == "" || name == "_" {
		return nil
	}
	var out []string
	ast.Inspect(f, func(n ast.Node) bool {
		ce, ok := n.(*ast.CallExpr)
		if !ok {
			return true
		}
		if sel, ok := ce.Fun.(*ast.SelectorExpr); ok {
			if id, ok := sel.X.(*ast.Ident); ok && id.Name == name && id.Obj == nil && directiveNames[sel.Sel.Name] {
				out = append(out, name+"."+sel.Sel.Name)
			}
		}
		return true
	})
	return out
}

// maskedDecls prints every non-import declaration with directive calls (in
// a source file) or generated closures (in an output file) replaced by a
// placeholder, without comments.
func maskedDecls(fset *token.FileSet, f *ast.File, isOutput bool) ([]string, int) {
	name := cffImportName(f)
	masked := 0
	res := astutil.Apply(f, func(c *astutil.Cursor) bool {
		ce, ok := c.Node().(*ast.CallExpr)
		if !ok {
			return true
		}
		if !isOutput {
			if sel, ok := ce.Fun.(*ast.SelectorExpr); ok {
				if id, ok := sel.X.(*ast.Ident); ok && id.Name == name && (sel.Sel.Name == "Flow" || sel.Sel.Name == "Parallel") {
					c.Replace(ast.NewIdent("__DIRECTIVE__"))
					masked++
					return false
				}
			}
			return true
		}
		if fl, ok := ce.Fun.(*ast.FuncLit); ok && len(ce.Args) == 0 && fl.Type.Results != nil && len(fl.Type.Results.List) == 1 {
			r := fl.Type.Results.List[0]
			if len(r.Names) == 1 && r.Names[0].Name == "err" && len(fl.Type.Params.List) == 0 {
				if id, ok := r.Type.(*ast.Ident); ok && id.Name == "error" {
					c.Replace(ast.NewIdent("__DIRECTIVE__"))
					masked++
					return false
				}
			}
		}
		return true
	}, nil)
	file := res.(*ast.File)
	var out []string
	for _, d := range file.Decls {
		if gd, ok := d.(*ast.GenDecl); ok && gd.Tok == token.IMPORT {
			continue
		}
		var buf bytes.Buffer
		cfg := printer.Config{Mode: printer.RawFormat}
		cfg.Fprint(&buf, token.NewFileSet(), stripPos(d))
		out = append(out, buf.String())
	}
	return out, masked
}

// stripPos makes printing independent of original positions/comments.
func stripPos(n ast.Node) ast.Node {
	ast.Inspect(n, func(x ast.Node) bool {
		switch v := x.(type) {
		case *ast.FuncDecl:
			v.Doc = nil
		case *ast.GenDecl:
			v.Doc = nil
		case *ast.Field:
			v.Doc, v.Comment = nil, nil
		case *ast.ValueSpec:
			v.Doc, v.Comment = nil, nil
		case *ast.TypeSpec:
			v.Doc, v.Comment = nil, nil
		}
		return true
	})
	return n
}

func importSet(f *ast.File) map[string]string {
	m := map[string]string{}
	for _, imp := range f.Imports {
		n := ""
		if imp.Name != nil {
			n = imp.Name.Name
		}
		m[imp.Path.Value+"#"+n] = n
	}
	return m
}

// constraintLines extracts the build-constraint lines above the package clause.
func constraintLines(src string) (gobuild []string, plus []string) {
	// (the go tool ignores a byte order mark at the beginning of a file)
	src = strings.TrimPrefix(src, "\ufeff")
	for _, line := range strings.Split(src, "\n") {
		t := strings.TrimSpace(line)
		if strings.HasPrefix(t, "package ") {
			break
		}
		if constraint.IsGoBuild(t) {
			gobuild = append(gobuild, t)
		} else if constraint.IsPlusBuild(t) {
			plus = append(plus, t)
		}
	}
	return
}

// evalLines evaluates a set of constraint lines of one syntax (AND of lines).
func evalLines(lines []string, tags map[string]bool) (bool, error) {
	res := true
	for _, l := range lines {
		e, err := constraint.Parse(l)
		if err != nil {
			return false, err
		}
		if !e.Eval(func(t string) bool { return tags[t] }) {
			res = false
		}
	}
	return res, nil
}

// checkConstraints is the C16 truth-table oracle.
func checkConstraints(src, gen string) []string {
	var bad []string
	sg, sp := constraintLines(src)
	gg, gp := constraintLines(gen)
	tagNames := []string{"cff", "a", "b", "c"}
	for mask := 0; mask < 1<<len(tagNames); mask++ {
		tags, flipped := map[string]bool{}, map[string]bool{}
		for i, n := range tagNames {
			v := mask&(1<<i) != 0
			tags[n], flipped[n] = v, v
		}
		flipped["cff"] = !tags["cff"]
		eff := func(g, p []string) []string {
			if len(g) > 0 {
				return g // since Go 1.17 a //go:build line alone governs
			}
			return p
		}
		type pair struct {
			what     string
			src, gen []string
		}
		pairs := []pair{{"effective constraint", eff(sg, sp), eff(gg, gp)}}
		if len(sg) > 0 && len(gg) > 0 {
			pairs = append(pairs, pair{"//go:build", sg, gg})
		}
		if len(sp) > 0 && len(gp) > 0 {
			pairs = append(pairs, pair{"// +build", sp, gp})
		}
		if len(sg) > 0 && len(gg) == 0 {
			bad = append(bad, "the //go:build line was dropped from the generated file")
			return bad
		}
		if len(sp) > 0 && len(gp) == 0 && len(sg) == 0 {
			bad = append(bad, "the // +build lines were dropped from the generated file")
			return bad
		}
		for _, pair := range pairs {
			want, err1 := evalLines(pair.src, flipped)
			got, err2 := evalLines(pair.gen, tags)
			if err1 != nil || err2 != nil {
				bad = append(bad, fmt.Sprintf("unparsable constraint: %v %v", err1, err2))
				return bad
			}
			if want != got {
				bad = append(bad, fmt.Sprintf("%s: with tags %v the generated file is selected=%v but the source with cff flipped is selected=%v (source %q, generated %q)", pair.what, tags, got, want, pair.src, pair.gen))
				return bad
			}
		}
	}
	return bad
}

// genConstraint draws a constraint expression over {cff,a,b,c}.
func genConstraint(t *rapid.T, depth int) constraint.Expr {
	if depth <= 0 || uniform(t, "leaf", 3) == 0 {
		return &constraint.TagExpr{Tag: []string{"cff", "cff", "a", "b", "c"}[uniform(t, "tag", 5)]}
	}
	switch uniform(t, "op", 3) {
	case 0:
		x := genConstraint(t, depth-1)
		if n, ok := x.(*constraint.NotExpr); ok {
			return n.X // "!!x" is not a valid constraint
		}
		return &constraint.NotExpr{X: x}
	case 1:
		return &constraint.AndExpr{X: genConstraint(t, depth-1), Y: genConstraint(t, depth-1)}
	}
	return &constraint.OrExpr{X: genConstraint(t, depth-1), Y: genConstraint(t, depth-1)}
}

func mentionsCff(e constraint.Expr) bool {
	switch x := e.(type) {
	case *constraint.TagExpr:
		return x.Tag == "cff"
	case *constraint.NotExpr:
		return mentionsCff(x.X)
	case *constraint.AndExpr:
		return mentionsCff(x.X) || mentionsCff(x.Y)
	case *constraint.OrExpr:
		return mentionsCff(x.X) || mentionsCff(x.Y)
	}
	return false
}

// genHeader draws a build-constraint header that selects the file when cff
// and the returned extra tags are set.
func genHeader(t *rapid.T) (header string, extraTags []string, label string) {
	header, extraTags, label = genHeader0(t)
	// comments and blank lines that may legally precede build constraints
	pre := uniform(t, "preamble", 8)
	if pre <= 1 && !strings.Contains(header, "//go:build") {
		// go/build stops looking for "// +build" lines at the first block
		// comment: such a file would carry no effective constraint at all
		pre = 2
	}
	switch pre {
	case 0:
		header, label = "/* Copyright 2024 Example Inc. */\n\n"+header, label+"+blockcomment1"
	case 1:
		header, label = "/*\n * Copyright 2024 Example Inc.\n * All rights reserved.\n */\n\n"+header, label+"+blockcommentN"
	case 2:
		header, label = "// Copyright 2024 Example Inc.\n// Licensed under the terms.\n\n"+header, label+"+linecomment"
	case 3:
		header, label = "\n\n"+header, label+"+blank"
	}
	return
}

func genHeader0(t *rapid.T) (header string, extraTags []string, label string) {
	if uniform(t, "plainheader", 3) == 0 {
		switch uniform(t, "plainkind", 3) {
		case 0:
			return "//go:build cff\n", nil, "gobuild-plain"
		case 1:
			return "// +build cff\n", nil, "plusbuild-plain"
		}
		return "//go:build cff\n// +build cff\n", nil, "both-plain"
	}
	for try := 0; try < 50; try++ {
		e := genConstraint(t, 1+uniform(t, "depth", 3))
		if !mentionsCff(e) {
			continue
		}
		// find extra tags making it true with cff set
		for mask := 0; mask < 8; mask++ {
			tags := map[string]bool{"cff": true, "a": mask&1 != 0, "b": mask&2 != 0, "c": mask&4 != 0}
			if !e.Eval(func(s string) bool { return tags[s] }) {
				continue
			}
			// without cff (same other tags) the source must be excluded, or the
			// source and the generated file would both be compiled: such
			// constraints are unusable with cff and outside the domain
			tags["cff"] = false
			if e.Eval(func(s string) bool { return tags[s] }) {
				continue
			}
			tags["cff"] = true
			var extra []string
			for _, n := range []string{"a", "b", "c"} {
				if tags[n] {
					extra = append(extra, n)
				}
			}
			switch uniform(t, "syntax", 3) {
			case 0:
				return "//go:build " + e.String() + "\n", extra, "gobuild-expr"
			case 1:
				lines, err := constraint.PlusBuildLines(e)
				if err != nil {
					return "//go:build " + e.String() + "\n", extra, "gobuild-expr"
				}
				return strings.Join(lines, "\n") + "\n", extra, "plusbuild-expr"
			default:
				lines, err := constraint.PlusBuildLines(e)
				if err != nil {
					return "//go:build " + e.String() + "\n", extra, "gobuild-expr"
				}
				return "//go:build " + e.String() + "\n" + strings.Join(lines, "\n") + "\n", extra, "both-expr"
			}
		}
	}
	return "//go:build cff\n", nil, "gobuild-plain"
}

type genCase struct {
	pkg      *PackageSpec
	mutation map[string]string // file -> mutation label ("" = unmutated)
	tags     []string
	hdrLabel map[string]string
	mode     string // base | source-map
	auto     bool
}

// genGenCase draws a package for the E-GEN properties.
func genGenCase(t *rapid.T, prop string) *genCase {
	gc := &genCase{mutation: map[string]string{}, hdrLabel: map[string]string{}, mode: "base"}
	o := DefaultOpts()
	o.PWrap = 0.15
	illFormed := prop == "C14" || (prop == "C13" && uniform(t, "illformed", 4) == 0)
	switch {
	case illFormed:
		// C13 also quantifies over type-correct but ill-formed inputs: the
		// tool must answer with diagnostics, never with a crash
		o.PParallel = 0
		o.PPred = 0.35
		o.PNamedBool = 0.06
		// one flow per file so that verdicts are per file
		p := &PackageSpec{}
		nf := 6 + uniform(t, "nfiles", 10)
		for fi := 0; fi < nf; fi++ {
			f := &FileSpec{Name: fileName(t, fi), Header: "//go:build cff\n", Idx: fi}
			s := GenFlow(t, fmt.Sprintf("Prog%d", fi), o)
			if uniform(t, "mutate", 3) != 0 {
				gc.mutation[f.Name] = Mutate(t, s)
				if gc.mutation[f.Name] != "none" && uniform(t, "double", 6) == 0 {
					gc.mutation[f.Name] += "+" + Mutate(t, s)
				}
			}
			f.Progs = []*rt.Spec{s}
			p.Files = append(p.Files, f)
		}
		gc.pkg = p
		return gc
	}
	nfiles := 2 + uniform(t, "nfiles", 3)
	gc.pkg = GenPackage(t, o, nfiles, 6)
	if prop == "C16" || uniform(t, "hdr", 3) == 0 {
		// all files of the package share the extra tag assignment: draw the
		// header of each file under one assignment by retrying
		var tags []string
		for i, f := range gc.pkg.Files {
			for try := 0; try < 20; try++ {
				h, extra, lbl := genHeader(t)
				if i == 0 || len(extra) == 0 || strings.Join(extra, ",") == strings.Join(tags, ",") {
					if i == 0 {
						tags = extra
					}
					if len(extra) == 0 && len(tags) > 0 {
						// must also hold under the package's tags
						gl, pl := constraintLines(h)
						m := map[string]bool{"cff": true}
						for _, x := range tags {
							m[x] = true
						}
						ok1, _ := evalLines(gl, m)
						ok2, _ := evalLines(pl, m)
						m["cff"] = false
						ex1, _ := evalLines(gl, m)
						ex2, _ := evalLines(pl, m)
						if !ok1 || !ok2 || (len(gl) > 0 && ex1) || (len(gl) == 0 && ex2) {
							continue // not selected with cff, or not excluded without it, under the package's tags
						}
					}
					f.Header, gc.hdrLabel[f.Name] = h, lbl
					break
				}
			}
		}
		gc.tags = tags
	}
	if prop == "C16" || prop == "C17" {
		// names that are suffixes / prefixes of one another (wf1.go vs f1.go)
		for i := 1; i < len(gc.pkg.Files); i++ {
			switch uniform(t, "fname", 4) {
			case 0:
				gc.pkg.Files[i].Name = "w" + gc.pkg.Files[i-1].Name
			case 1:
				gc.pkg.Files[i].Name = strings.TrimSuffix(gc.pkg.Files[i-1].Name, ".go") + "x.go"
			}
		}
	}
	if prop == "C16" && uniform(t, "testfile", 3) == 0 {
		gc.pkg.Files[len(gc.pkg.Files)-1].Name = "x_test.go"
	}
	if prop == "C16" && uniform(t, "staleout", 3) == 0 {
		gc.pkg.StaleOut = true
	}
	if prop == "C17" && uniform(t, "foreignline", 3) == 0 {
		for _, f := range gc.pkg.Files {
			f.Layout |= 128
		}
	}
	if uniform(t, "smap", 2) == 0 && prop != "C16" {
		gc.mode = "source-map"
	}
	gc.auto = uniform(t, "auto", 4) == 0
	gc.pkg.AutoInstr = gc.auto
	return gc
}

func (gc *genCase) cffArgs(extra ...string) []string {
	var a []string
	if gc.mode != "base" {
		a = append(a, "-genmode="+gc.mode)
	}
	if gc.auto {
		a = append(a, "-auto-instrument")
	}
	if len(gc.tags) > 0 {
		a = append(a, "-tags="+strings.Join(gc.tags, ","))
	}
	a = append(a, extra...)
	return append(a, "vcase/p")
}

func crashed(out string, code int) bool {
	return strings.Contains(out, "panic:") || strings.Contains(out, "goroutine ") || strings.Contains(out, "runtime error") || code == 2
}

func readDirGo(dir string) map[string]string {
	m := map[string]string{}
	ents, _ := os.ReadDir(dir)
	for _, e := range ents {
		if strings.HasSuffix(e.Name(), ".go") {
			b, _ := os.ReadFile(filepath.Join(dir, e.Name()))
			m[e.Name()] = string(b)
		}
	}
	return m
}

// stripComments parses src and prints it without any comment.
func stripComments(name, src string) (string, error) {
	fset := token.NewFileSet()
	f, err := parser.ParseFile(fset, name, src, 0) // comments dropped
	if err != nil {
		return "", err
	}
	var buf bytes.Buffer
	if err := (&printer.Config{Mode: printer.RawFormat}).Fprint(&buf, token.NewFileSet(), stripPosFile(f)); err != nil {
		return "", err
	}
	// normalise whitespace: the printer may still place tokens differently
	return strings.Join(strings.Fields(buf.String()), " "), nil
}

func stripPosFile(f *ast.File) *ast.File {
	f.Doc = nil
	f.Comments = nil
	stripPos(f)
	return f
}

type genOutcome struct {
	findings     []rt.Finding
	inconclusive string
	output       string
	nprogs       int
	rejected     int
	accepted     int
}

// runGenCase runs cff on the package and evaluates every E-GEN oracle.
func runGenCase(gc *genCase, keepDir *string) *genOutcome {
	oc := &genOutcome{}
	add := func(prop, f string, a ...interface{}) {
		oc.findings = append(oc.findings, rt.Finding{Prop: prop, Msg: fmt.Sprintf(f, a...)})
	}
	work := *flagWork
	if work == "" {
		work = os.TempDir()
	}
	dir, err := os.MkdirTemp(work, "gen-")
	if err != nil {
		oc.inconclusive = err.Error()
		return oc
	}
	defer os.RemoveAll(dir)
	mod := filepath.Join(dir, "vcase")
	if err := WriteModule(mod, gc.pkg, *flagRtDir, *flagRepo); err != nil {
		oc.inconclusive = err.Error()
		return oc
	}
	oc.nprogs = len(gc.pkg.Specs())
	pdir := filepath.Join(mod, "p")
	if gc.pkg.StaleOut {
		// an older, much longer generation of some files is already there
		stale := "//go:build !cff\n\npackage p\n\n" + strings.Repeat("// an older generation of this file was much longer than the new one\n", 20000) +
			"\n// left over from the older generation\nvar cffStaleMarker = 0\n"
		for i, f := range gc.pkg.Files {
			if i%2 == 0 {
				os.WriteFile(filepath.Join(pdir, genName(f.Name)), []byte(stale), 0o644)
			}
		}
	}
	before := dirSnapshot(mod)
	srcs := readDirGo(pdir)
	out, code, to := run(mod, 120*time.Second, *flagCff, gc.cffArgs()...)
	oc.output = out
	if to {
		oc.inconclusive = "cff timed out"
		return oc
	}
	if code != 0 && strings.Contains(out, "load packages:") && !crashed(out, code) {
		oc.inconclusive = "discarded_invalid_input: " + tailStr(out, 500)
		return oc
	}
	if crashed(out, code) {
		add("C13", "the cff tool crashed (exit %d) on a type-correct package:\n%s", code, tailStr(out, 1500))
		for _, f := range gc.pkg.Files {
			for _, s := range f.Progs {
				if s.Kind == "flow" && len(WellFormed(s)) > 0 {
					add("C14", "ill-formed flow in %s (%s: %v) was not rejected with a diagnostic: the tool crashed", f.Name, gc.mutation[f.Name], WellFormed(s))
				}
			}
		}
		return oc
	}
	after := dirSnapshot(mod)
	gens := readDirGo(pdir)
	if gc.pkg.StaleOut && code == 0 {
		for n, g := range gens {
			if strings.Contains(g, "cffStaleMarker") {
				add("C16", "%s: the output path held an older, longer generation and was not truncated: the new text is followed by the tail of the old file", n)
			}
		}
	}

	// expected verdict per file
	expectReject := map[string]bool{}
	for _, f := range gc.pkg.Files {
		for _, s := range f.Progs {
			if s.Kind == "flow" && len(WellFormed(s)) > 0 {
				expectReject[f.Name] = true
			}
		}
	}
	// files whose verdict the listed properties do not fix (a signature cff
	// may or may not support): accepted => must compile (checked below),
	// rejected => cleanly, with a diagnostic naming the file
	freeVerdict := map[string]bool{}
	for _, f := range gc.pkg.Files {
		for _, s := range f.Progs {
			for _, ts := range s.Tasks {
				if ts.Pred != nil && ts.Pred.NamedBool {
					freeVerdict[f.Name] = true
				}
			}
		}
	}
	anyReject := false
	for _, f := range gc.pkg.Files {
		gn := genName(f.Name)
		_, have := gens[gn]
		if freeVerdict[f.Name] && !expectReject[f.Name] {
			if have {
				oc.accepted++
			} else {
				anyReject = true
				oc.rejected++
				if !strings.Contains(out, f.Name) {
					add("C13", "cff wrote no output for %s (predicate returning a declared boolean type) and no diagnostic names the file", f.Name)
				}
			}
			continue
		}
		if expectReject[f.Name] {
			anyReject = true
			oc.rejected++
			if have {
				add("C14", "ill-formed flow in %s (%s: %v) but cff wrote %s", f.Name, gc.mutation[f.Name], WellFormed(f.Progs[0]), gn)
			}
			if !strings.Contains(out, f.Name) {
				add("C14", "ill-formed flow in %s (%s: %v) but no diagnostic names the file", f.Name, gc.mutation[f.Name], WellFormed(f.Progs[0]))
			}
		} else {
			oc.accepted++
			if !have {
				if strings.Contains(out, "must be tagged with the 'cff' constraint") && gc.hdrLabel[f.Name] != "" {
					// cff did not recognise the cff tag inside a complex constraint; the
					// listed properties do not cover this rejection: informational only
					add("INFO", "header %q of %s mentions cff but is rejected as untagged", f.Header, f.Name)
					continue
				}
				add("C14", "well-formed directives in %s (mutation %q) were rejected:\n%s", f.Name, gc.mutation[f.Name], tailStr(out, 1200))
			}
		}
	}
	if anyReject && code == 0 {
		add("C14", "cff exited 0 although it had to reject a file")
	}
	if !anyReject && code != 0 && len(oc.findings) == 0 {
		add("C14", "cff exited %d although every directive is well-formed:\n%s", code, tailStr(out, 1200))
	}

	// C16 (iii): only documented paths written, nothing else modified
	allowed := map[string]bool{}
	for _, f := range gc.pkg.Files {
		allowed[filepath.Join("p", genName(f.Name))] = true
	}
	for p, h := range after {
		if b, ok := before[p]; ok {
			if b != h && !(gc.pkg.StaleOut && allowed[p]) { // (an older generation at a documented output path is replaced)
				add("C16", "cff modified an existing file: %s", p)
			}
		} else if !allowed[p] {
			add("C16", "cff wrote an undocumented path: %s", p)
		}
	}
	for p := range before {
		if _, ok := after[p]; !ok {
			add("C16", "cff removed a file: %s", p)
		}
	}

	// per generated file: parse, no directive left, constraints, masked AST, magic token
	for _, f := range gc.pkg.Files {
		gn := genName(f.Name)
		gsrc, ok := gens[gn]
		if !ok {
			continue
		}
		fset := token.NewFileSet()
		gf, err := parser.ParseFile(fset, gn, gsrc, parser.ParseComments)
		if err != nil {
			add("C13", "generated file %s does not parse: %v", gn, err)
			continue
		}
		if rem := remainingDirectives(gf); len(rem) > 0 {
			add("C13", "generated file %s still contains directive calls: %v", gn, rem)
		}
		if strings.Contains(gsrc, "CFF_MAGIC_TOKEN") {
			add("C20", "generated file %s contains the internal magic token", gn)
		}
		for _, b := range checkConstraints(srcs[f.Name], gsrc) {
			add("C16", "%s: %s", f.Name, b)
		}
		sf, err := parser.ParseFile(token.NewFileSet(), f.Name, srcs[f.Name], parser.ParseComments)
		if err == nil {
			sd, ns := maskedDecls(token.NewFileSet(), sf, false)
			gd, ng := maskedDecls(token.NewFileSet(), gf, true)
			if ns != ng {
				add("C16", "%s has %d directive calls but %s has %d generated closures", f.Name, ns, gn, ng)
			} else if len(sd) != len(gd) {
				add("C16", "%s has %d declarations, %s has %d", f.Name, len(sd), gn, len(gd))
			} else {
				for i := range sd {
					if norm(sd[i]) != norm(gd[i]) {
						add("C16", "declaration %d of %s was changed outside directive calls:\n--- source\n%s\n--- generated\n%s", i, f.Name, clip(sd[i]), clip(gd[i]))
						break
					}
				}
			}
			si, gi := importSet(sf), importSet(gf)
			for k := range si {
				if _, ok := gi[k]; !ok {
					add("C16", "%s lost or renamed the import %s", gn, k)
				}
			}
		}
	}

	// C13: the package type-checks without the cff tag
	if len(oc.findings) == 0 || onlyInfo(oc.findings) {
		bargs := []string{"build"}
		if len(gc.tags) > 0 {
			bargs = append(bargs, "-tags="+strings.Join(gc.tags, ","))
		}
		bargs = append(bargs, "./...")
		if o, c, to := run(mod, 300*time.Second, "go", bargs...); to {
			oc.inconclusive = "go build timed out"
		} else if c != 0 {
			add("C13", "cff succeeded for some files but the package does not compile without the cff tag:\n%s", tailStr(o, 2000))
		}
		hasTest := false
		for _, f := range gc.pkg.Files {
			if strings.HasSuffix(f.Name, "_test.go") {
				hasTest = true
			}
		}
		if hasTest {
			// compile the package together with its (generated) test files; not
			// "go vet", whose buildtag analyzer also judges the SOURCE files
			targs := []string{"test", "-c", "-vet=off", "-o", filepath.Join(dir, "p.test")}
			if len(gc.tags) > 0 {
				targs = append(targs, "-tags="+strings.Join(gc.tags, ","))
			}
			if o, c, _ := run(mod, 300*time.Second, "go", append(targs, "./p")...); c != 0 {
				add("C13", "the package with its generated test file does not type-check:\n%s", tailStr(o, 2000))
			}
		}
	}

	// C16: a -file selection writes the selected file's output and nothing else
	if *flagProp == "C16" && !anyReject && len(gc.pkg.Files) >= 2 {
		for _, f := range gc.pkg.Files {
			for _, g := range gc.pkg.Files {
				os.Remove(filepath.Join(pdir, genName(g.Name)))
			}
			b0 := dirSnapshot(mod)
			if o, c, _ := run(mod, 120*time.Second, *flagCff, gc.cffArgs("-file="+f.Name)...); c != 0 {
				add("C16", "cff -file=%s failed although the whole package succeeded:\n%s", f.Name, tailStr(o, 800))
				continue
			}
			a0 := dirSnapshot(mod)
			for p, h := range a0 {
				if b0[p] == h {
					continue
				}
				if p != filepath.Join("p", genName(f.Name)) {
					add("C16", "cff -file=%s wrote %s: only %s may be written", f.Name, p, genName(f.Name))
				}
			}
			if _, ok := a0[filepath.Join("p", genName(f.Name))]; !ok {
				add("C16", "cff -file=%s did not write %s", f.Name, genName(f.Name))
			}
		}
	}

	// C17: determinism across processes and -file selections
	if *flagProp == "C17" && !anyReject {
		for rep := 0; rep < 2; rep++ {
			for _, f := range gc.pkg.Files {
				os.Remove(filepath.Join(pdir, genName(f.Name)))
			}
			if o, c, _ := run(mod, 120*time.Second, *flagCff, gc.cffArgs()...); c != 0 {
				add("C17", "second run of cff failed although the first succeeded:\n%s", tailStr(o, 800))
				break
			}
			again := readDirGo(pdir)
			for n, want := range gens {
				if again[n] != want {
					add("C17", "repeated run produced different text for %s:\n%s", n, firstDiff(want, again[n]))
				}
			}
		}
		for _, f := range gc.pkg.Files {
			gn := genName(f.Name)
			os.Remove(filepath.Join(pdir, gn))
			if o, c, _ := run(mod, 120*time.Second, *flagCff, gc.cffArgs("-file="+f.Name)...); c != 0 {
				add("C17", "cff -file=%s failed although the whole package succeeded:\n%s", f.Name, tailStr(o, 800))
				continue
			}
			b, _ := os.ReadFile(filepath.Join(pdir, gn))
			if string(b) != gens[gn] {
				add("C17", "cff -file=%s produced different text for %s than processing the whole package:\n%s", f.Name, gn, firstDiff(gens[gn], string(b)))
			}
			// -file=IN=OUT writes exactly OUT
			alt := filepath.Join(dir, "alt_out.go")
			os.Remove(alt)
			before2 := dirSnapshot(mod)
			if _, c, _ := run(mod, 120*time.Second, *flagCff, gc.cffArgs("-file="+f.Name+"="+alt)...); c == 0 {
				ab, err := os.ReadFile(alt)
				if err != nil {
					add("C16", "cff -file=%s=OUT did not write OUT", f.Name)
				} else if gc.mode == "base" && string(ab) != gens[gn] {
					add("C17", "cff -file=%s=OUT produced different text than the default output", f.Name)
				}
				after2 := dirSnapshot(mod)
				for p, h := range after2 {
					if before2[p] != h {
						add("C16", "cff -file=%s=OUT touched %s inside the module", f.Name, p)
					}
				}
			}
		}
	}

	// C17: the text does not depend on where the module lives, on the working
	// directory cff is started from, or on how OUT is spelled
	if *flagProp == "C17" && !anyReject && len(oc.findings) == 0 {
		other := filepath.Join(dir, "elsewhere", "a-much-deeper", "checkout", "vcase")
		if err := copyTree(mod, other); err == nil {
			opdir := filepath.Join(other, "p")
			for _, f := range gc.pkg.Files {
				os.Remove(filepath.Join(opdir, genName(f.Name)))
			}
			if o, c, _ := run(other, 120*time.Second, *flagCff, gc.cffArgs()...); c != 0 {
				add("C17", "cff failed on a copy of the module at another path although it succeeded before:\n%s", tailStr(o, 800))
			} else {
				og := readDirGo(opdir)
				for n, want := range gens {
					if og[n] != want {
						add("C17", "the same module at another absolute path produced different text for %s:\n%s", n, firstDiff(want, og[n]))
					}
				}
			}
			os.RemoveAll(filepath.Join(dir, "elsewhere"))
		}
		// started from inside the package directory, with the pattern "."
		for _, f := range gc.pkg.Files {
			os.Remove(filepath.Join(pdir, genName(f.Name)))
		}
		inArgs := gc.cffArgs()
		inArgs[len(inArgs)-1] = "."
		if o, c, _ := run(pdir, 120*time.Second, *flagCff, inArgs...); c != 0 {
			add("C17", "cff . (started inside the package directory) failed although cff <import path> succeeded:\n%s", tailStr(o, 800))
		} else {
			og := readDirGo(pdir)
			for n, want := range gens {
				if og[n] != want {
					add("C17", "cff started inside the package directory produced different text for %s:\n%s", n, firstDiff(want, og[n]))
				}
			}
		}
		// outputs left by an earlier run must not influence a later one:
		// regenerate in the other mode OVER the existing outputs and compare
		// with what a clean tree yields in that mode
		{
			om := *gc
			om.mode = "source-map"
			if gc.mode != "base" {
				om.mode = "base"
			}
			clean := func() {
				for _, f := range gc.pkg.Files {
					os.Remove(filepath.Join(pdir, genName(f.Name)))
				}
			}
			clean()
			if _, c, _ := run(mod, 120*time.Second, *flagCff, gc.cffArgs()...); c == 0 {
				if _, c2, _ := run(mod, 120*time.Second, *flagCff, om.cffArgs()...); c2 == 0 {
					over := readDirGo(pdir)
					clean()
					if _, c3, _ := run(mod, 120*time.Second, *flagCff, om.cffArgs()...); c3 == 0 {
						fresh := readDirGo(pdir)
						for _, f := range gc.pkg.Files {
							n := genName(f.Name)
							if over[n] != fresh[n] {
								add("C17", "%s: regenerating in %s mode over outputs left by a %s-mode run gives other text than a clean tree does:\n%s", n, om.mode, gc.mode, firstDiff(fresh[n], over[n]))
							}
						}
					}
				}
			}
			clean()
			run(mod, 120*time.Second, *flagCff, gc.cffArgs()...)
		}
		// a relative OUT
		if gc.mode == "base" && len(gc.pkg.Files) > 0 {
			f := gc.pkg.Files[0]
			rel := filepath.Join("p", "zz_rel_out.go")
			if _, c, _ := run(mod, 120*time.Second, *flagCff, gc.cffArgs("-file="+f.Name+"="+rel)...); c == 0 {
				b, err := os.ReadFile(filepath.Join(mod, rel))
				if err != nil {
					add("C16", "cff -file=%s=%s did not write the relative OUT path", f.Name, rel)
				} else if string(b) != gens[genName(f.Name)] {
					add("C17", "cff -file=%s=<relative OUT> produced different text than the default output:\n%s", f.Name, firstDiff(gens[genName(f.Name)], string(b)))
				}
				os.Remove(filepath.Join(mod, rel))
			}
		}
	}

	// C20a: source-map output is base output up to comments
	if *flagProp == "C20" && !anyReject {
		other := *gc
		if gc.mode == "base" {
			other.mode = "source-map"
		} else {
			other.mode = "base"
		}
		for _, f := range gc.pkg.Files {
			os.Remove(filepath.Join(pdir, genName(f.Name)))
		}
		if o, c, _ := run(mod, 120*time.Second, *flagCff, other.cffArgs()...); c != 0 {
			add("C20", "cff -genmode=%s failed although -genmode=%s succeeded:\n%s", other.mode, gc.mode, tailStr(o, 800))
		} else {
			og := readDirGo(pdir)
			for n, a := range gens {
				sa, e1 := stripComments(n, a)
				sb, e2 := stripComments(n, og[n])
				if e1 != nil || e2 != nil {
					add("C20", "output %s does not parse in one of the modes: %v %v", n, e1, e2)
				} else if sa != sb {
					add("C20", "%s differs between base and source-map mode beyond comments:\n%s", n, firstDiff(sa, sb))
				}
				if strings.Contains(og[n], "CFF_MAGIC_TOKEN") {
					add("C20", "generated file %s contains the internal magic token", n)
				}
			}
			// the source-map output must itself compile
			bargs := []string{"build"}
			if len(gc.tags) > 0 {
				bargs = append(bargs, "-tags="+strings.Join(gc.tags, ","))
			}
			if o, c, _ := run(mod, 300*time.Second, "go", append(bargs, "./...")...); c != 0 {
				add("C20", "output of -genmode=%s does not compile:\n%s", other.mode, tailStr(o, 1500))
			}
		}
	}
	return oc
}

func onlyInfo(fs []rt.Finding) bool {
	for _, f := range fs {
		if f.Prop != "INFO" {
			return false
		}
	}
	return true
}

func norm(s string) string { return strings.Join(strings.Fields(s), " ") }

func clip(s string) string {
	if len(s) > 1200 {
		return s[:1200] + "..."
	}
	return s
}

func firstDiff(a, b string) string {
	al, bl := strings.Split(a, "\n"), strings.Split(b, "\n")
	for i := 0; i < len(al) && i < len(bl); i++ {
		if al[i] != bl[i] {
			return fmt.Sprintf("line %d:\n- %s\n+ %s", i+1, clip(al[i]), clip(bl[i]))
		}
	}
	if len(a) != len(b) && len(al) == 1 {
		// single-line normalised text: find first differing offset
		n := len(a)
		if len(b) < n {
			n = len(b)
		}
		for i := 0; i < n; i++ {
			if a[i] != b[i] {
				lo := i - 80
				if lo < 0 {
					lo = 0
				}
				hi := i + 80
				return fmt.Sprintf("at offset %d:\n- %s\n+ %s", i, a[lo:minInt(hi, len(a))], b[lo:minInt(hi, len(b))])
			}
		}
	}
	return fmt.Sprintf("lengths differ: %d vs %d lines", len(al), len(bl))
}

func minInt(a, b int) int {
	if a < b {
		return a
	}
	return b
}

func genNonTrivial(prop string, gc *genCase, s *rt.Spec, f *FileSpec) bool {
	switch prop {
	case "C13":
		nonDefault := f.CtxAlias != "" || f.CffAlias != "" || f.TimeImp != "" || f.OddImp != 0 || s.Wrap
		for _, t := range s.Tasks {
			if t.Sp != "lit" {
				nonDefault = true
			}
			for _, x := range append(append([]rt.TypeRef{}, t.In...), t.Out...) {
				if x.K == "U" || x.K == "V" || x.K == "G" {
					nonDefault = true
				}
			}
		}
		for _, t := range s.PTasks {
			if t.Sp != "lit" {
				nonDefault = true
			}
		}
		return nonDefault
	case "C14":
		m := gc.mutation[f.Name]
		return m != "" && m != "none" && len(s.Tasks) >= 3
	case "C16":
		return gc.hdrLabel[f.Name] != "" && !strings.Contains(gc.hdrLabel[f.Name], "plain") || len(f.Progs) >= 2
	case "C17":
		return len(gc.pkg.Files) >= 2
	case "C20":
		return len(f.Progs) >= 2
	}
	return true
}

// TestGen is engine E-GEN.
func TestGen(t *testing.T) {
	if *flagCff == "" {
		t.Skip("-cff not given")
	}
	prop := *flagProp
	var logf *os.File
	if *flagOut != "" {
		logf, _ = os.Create(filepath.Join(*flagOut, fmt.Sprintf("cases-%s-gen-%d.jsonl", prop, *flagShard)))
		defer logf.Close()
	}
	samples := 0
	if *flagReplay != "" {
		b, err := os.ReadFile(*flagReplay)
		if err != nil {
			t.Fatal(err)
		}
		var f genFail
		if err := json.Unmarshal(b, &f); err != nil {
			t.Fatal(err)
		}
		if f.Raw != nil {
			fs := runRawProbe(&f)
			for _, fd := range fs {
				if fd.Prop == prop {
					t.Fatalf("replay reproduces: %s", fd.Msg)
				}
			}
			return
		}
		gc := &genCase{pkg: f.Package, mutation: map[string]string{}, hdrLabel: map[string]string{}, mode: "base"}
		for _, fl := range f.Flags {
			switch {
			case fl == "-auto-instrument":
				gc.auto = true
			case strings.HasPrefix(fl, "-genmode="):
				gc.mode = strings.TrimPrefix(fl, "-genmode=")
			}
		}
		if f.Tags != "" {
			gc.tags = strings.Split(f.Tags, ",")
		}
		oc := runGenCase(gc, nil)
		if oc.inconclusive != "" {
			t.Skip(oc.inconclusive)
		}
		for _, fd := range oc.findings {
			if fd.Prop == prop {
				t.Fatalf("replay reproduces: %s", fd.Msg)
			}
		}
		return
	}
	rapid.Check(t, func(rt_ *rapid.T) {
		gc := genGenCase(rt_, prop)
		oc := runGenCase(gc, nil)
		if m := takeEnvTrouble(); m != "" && oc.inconclusive == "" {
			oc.inconclusive = "a tool failed for an environmental reason (" + m + "): no verdict"
		}
		if oc.inconclusive != "" {
			if *flagOut != "" {
				f, err := os.OpenFile(filepath.Join(*flagOut, fmt.Sprintf("inconclusive-%s-%d.txt", prop, *flagShard)), os.O_APPEND|os.O_CREATE|os.O_WRONLY, 0o644)
				if err == nil {
					f.WriteString(strings.ReplaceAll(oc.inconclusive, "\n", " | ") + "\n")
					f.Close()
				}
			}
			rt_.Skip(oc.inconclusive)
		}
		var mine []rt.Finding
		var others []string
		for _, fd := range oc.findings {
			if fd.Prop == prop {
				mine = append(mine, fd)
			} else {
				others = append(others, fd.Prop)
				if *flagOut != "" && fd.Prop != "INFO" {
					if f, err := os.OpenFile(filepath.Join(*flagOut, fmt.Sprintf("otherfindings-%s-%d.txt", prop, *flagShard)), os.O_APPEND|os.O_CREATE|os.O_WRONLY, 0o644); err == nil {
						f.WriteString("[" + fd.Prop + "] " + clip(fd.Msg) + "\n")
						f.Close()
					}
				}
			}
		}
		sort.Strings(others)
		if logf != nil {
			for _, f := range gc.pkg.Files {
				for _, s := range f.Progs {
					lbl := specLabels(s)
					if m := gc.mutation[f.Name]; m != "" {
						lbl = append(lbl, "mut:"+m)
						if len(WellFormed(s)) > 0 {
							lbl = append(lbl, "verdict:reject")
						} else {
							lbl = append(lbl, "verdict:accept")
						}
					}
					if h := gc.hdrLabel[f.Name]; h != "" {
						lbl = append(lbl, "hdr:"+h)
					}
					lbl = append(lbl, "mode:"+gc.mode)
					for _, x := range []string{f.CtxAlias, f.CffAlias} {
						if x != "" {
							lbl = append(lbl, "alias:"+x)
						}
					}
					if f.TimeImp != "" {
						lbl = append(lbl, "time:"+f.TimeImp)
					}
					if f.OddImp != 0 {
						lbl = append(lbl, fmt.Sprintf("import:name-differs-from-path-%d", f.OddImp))
					}
					if f.Layout&1 != 0 {
						lbl = append(lbl, "layout:crlf")
					}
					if f.Layout&2 != 0 {
						lbl = append(lbl, "layout:no-final-newline")
					}
					if f.Layout&4 != 0 {
						lbl = append(lbl, "layout:go-generate-and-doc-before-package")
					}
					if f.Layout&8 != 0 && f.Layout&4 == 0 && !strings.Contains(f.Header, "+build") {
						lbl = append(lbl, "layout:constraint-glued-to-package-clause")
					}
					ll := binLogLine{H: specHash(s) + gc.mode, NT: genNonTrivial(prop, gc, s, f), N: 1, Labels: lbl, Other: others}
					others = nil
					if ll.NT && samples < 2 {
						samples++
						ll.Sample = json.RawMessage(s.JSON())
					}
					b, _ := json.Marshal(ll)
					logf.Write(append(b, '\n'))
				}
			}
		}
		if len(mine) > 0 {
			if *flagOut != "" {
				mod := map[string]string{}
				for _, f := range gc.pkg.Files {
					src, _, _ := RenderFile(f, gc.pkg.AutoInstr)
					mod[f.Name] = src
				}
				fr := genFail{Prop: prop, Engine: "gen", Package: gc.pkg, Tags: strings.Join(gc.tags, ","), Findings: mine, Sources: mod, Output: tailStr(oc.output, 3000)}
				if gc.mode != "base" {
					fr.Flags = append(fr.Flags, "-genmode="+gc.mode)
				}
				if gc.auto {
					fr.Flags = append(fr.Flags, "-auto-instrument")
				}
				b, _ := json.MarshalIndent(fr, "", " ")
				os.WriteFile(filepath.Join(*flagOut, fmt.Sprintf("fail-%s-gen-%d.json", prop, *flagShard)), b, 0o644)
			}
			rt_.Fatalf("%s: %s", prop, mine[0].Msg)
		}
	})
}

// runRawProbe runs cff and go build on hand-written sources (known-finding
// and regression probes). Any failure is reported under the probe's property.
func runRawProbe(f *genFail) []rt.Finding {
	var out []rt.Finding
	work := *flagWork
	if work == "" {
		work = os.TempDir()
	}
	dir, err := os.MkdirTemp(work, "probe-")
	if err != nil {
		return nil
	}
	defer os.RemoveAll(dir)
	mod := filepath.Join(dir, "vcase")
	if err := WriteModule(mod, &PackageSpec{}, *flagRtDir, *flagRepo); err != nil {
		return nil
	}
	for p, c := range f.Raw {
		fp := filepath.Join(mod, p)
		os.MkdirAll(filepath.Dir(fp), 0o755)
		os.WriteFile(fp, []byte(c), 0o644)
	}
	args := append(append([]string{}, f.Flags...), "vcase/p")
	o, code, _ := run(mod, 120*time.Second, *flagCff, args...)
	if crashed(o, code) {
		return []rt.Finding{{Prop: f.Prop, Msg: "cff crashed: " + tailStr(o, 800)}}
	}
	if f.Expect == "reject" {
		if code == 0 {
			return []rt.Finding{{Prop: f.Prop, Msg: "cff accepted a probe it must reject"}}
		}
		if !strings.Contains(o, "probe.go:") {
			return []rt.Finding{{Prop: f.Prop, Msg: "cff rejected the probe without a positioned diagnostic: " + tailStr(o, 800)}}
		}
		if _, err := os.Stat(filepath.Join(mod, "p", "probe_gen.go")); err == nil {
			return []rt.Finding{{Prop: f.Prop, Msg: "cff rejected the probe but wrote an output file"}}
		}
		return nil
	}
	if code != 0 {
		return []rt.Finding{{Prop: f.Prop, Msg: "cff rejected the probe: " + tailStr(o, 800)}}
	}
	if b, err := os.ReadFile(filepath.Join(mod, "p", "probe_gen.go")); err == nil {
		if gf, err := parser.ParseFile(token.NewFileSet(), "probe_gen.go", b, 0); err != nil {
			return []rt.Finding{{Prop: f.Prop, Msg: "output does not parse: " + err.Error()}}
		} else if rem := remainingDirectives(gf); len(rem) > 0 {
			out = append(out, rt.Finding{Prop: f.Prop, Msg: fmt.Sprintf("output still contains directive calls %v (they panic at run time)", rem)})
			return out
		}
	}
	if o, c, _ := run(mod, 300*time.Second, "go", "vet", "./..."); c != 0 {
		out = append(out, rt.Finding{Prop: f.Prop, Msg: "generated code does not compile: " + tailStr(o, 800)})
		return out
	}
	if _, ok := f.Raw["p/probe_test.go"]; ok {
		if o, c, _ := run(mod, 300*time.Second, "go", "test", "-count=1", "./p"); c != 0 {
			out = append(out, rt.Finding{Prop: f.Prop, Msg: "generated code misbehaves: " + tailStr(o, 1200)})
		}
	}
	return out
}
