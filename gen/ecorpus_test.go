package verifx

import (
	"crypto/sha256"
	"encoding/hex"
	"encoding/json"
	"fmt"
	"go/parser"
	"go/token"
	"os"
	"path/filepath"
	"sort"
	"strings"
	"testing"
	"time"

	"go.uber.org/cff/verifx/rt"
	"pgregory.net/rapid"
)

// Engine E-CORPUS: metamorphic fuzzing of the programs the cff authors wrote
// themselves (/repo/internal/tests/<pkg>, read from the working tree).
//
// A case is (package, mutations, mode). The cff-tagged sources of the package
// are rewritten by semantics-preserving source mutations (mutate.go), the
// checked-in generated files are deleted, the freshly built cff binary
// regenerates them, and then
//
//	C13  cff must not crash; if it exits 0 every expected output exists and
//	     parses, no directive call is left, the package and its tests compile
//	     without the cff tag
//	C14  a program cff accepted before the mutation is still accepted
//	     (the mutations change neither the graph nor any signature)
//	C16  masked-AST equality between mutated source and output, constraint
//	     truth tables, only the documented paths are written
//	C17  a second cff process reproduces the outputs byte for byte
//	C20  source-map output == base output up to comments
//	behaviour (metamorphic): the package's own tests, which pass on the
//	     unmutated program, still pass on the regenerated mutated program;
//	     attributed to the property the package exercises (corpusProp).
//
// A mutated source that does not type-check under the cff tag is a mutator
// slip: discarded and counted, never reported.
type corpusCase struct {
	Pkg  string `json:"pkg"`
	Muts []struct {
		File string `json:"file"`
		Mut
	} `json:"muts"`
	Mode string `json:"mode"`
}

type corpusFail struct {
	Prop     string            `json:"property"`
	Engine   string            `json:"engine"`
	Case     *corpusCase       `json:"case"`
	Applied  []string          `json:"applied"`
	Findings []rt.Finding      `json:"findings"`
	Sources  map[string]string `json:"sources,omitempty"`
	Output   string            `json:"output,omitempty"`
}

// corpusProp says which property a package's own tests exercise.
var corpusProp = map[string]string{
	"basic": "C02", "builtincallexpr": "C02", "earlyresult": "C02", "noresults": "C02",
	"nested_parent": "C02", "nested_child": "C02", "externalpackage": "C02", "named_imports": "C02",
	"importcollision": "C02", "importstmt": "C02", "insidegeneric": "C02", "cffintest": "C02",
	"fallbackwith": "C11", "predicate": "C11", "panic": "C04", "parallel": "C10",
	"setconcurrency": "C03", "shadowedvar": "C15",
}

func corpusPkgs(prop string) []string {
	var out []string
	for p, q := range corpusProp {
		switch prop {
		case "C13", "C14", "C16", "C17", "C20":
			out = append(out, p)
		default:
			if q == prop {
				out = append(out, p)
			}
		}
	}
	sort.Strings(out)
	return out
}

func corpusRoot() string { return filepath.Join(*flagRepo, "internal", "tests") }

// cffTaggedFiles lists the cff-tagged source files of a corpus package.
func cffTaggedFiles(pkg string) []string {
	var out []string
	ents, _ := os.ReadDir(filepath.Join(corpusRoot(), pkg))
	for _, e := range ents {
		n := e.Name()
		if !strings.HasSuffix(n, ".go") || strings.HasSuffix(n, "_gen.go") || strings.HasSuffix(n, "_gen_test.go") {
			continue
		}
		b, err := os.ReadFile(filepath.Join(corpusRoot(), pkg, n))
		if err == nil && (strings.Contains(string(b), "//go:build cff") || strings.Contains(string(b), "// +build cff")) {
			out = append(out, n)
		}
	}
	sort.Strings(out)
	return out
}

func genCorpusCase(t *rapid.T, prop string) *corpusCase {
	pkgs := corpusPkgs(prop)
	c := &corpusCase{Pkg: pkgs[uniform(t, "pkg", len(pkgs))], Mode: "base"}
	if prop == "C20" || (prop == "C13" || prop == "C17") && uniform(t, "mode", 3) == 0 {
		c.Mode = "source-map"
	}
	files := cffTaggedFiles(c.Pkg)
	ops := mutOps
	switch prop {
	case "C13":
		// also shapes whose verdict is free (cff must not crash, reject cleanly or emit compiling code)
		ops = append(append([]string{}, mutOps...), freeOps...)
		ops = append(ops, freeOps...)
	case "C16":
		ops = []string{"header", "header", "comment", "paren", "block", "closure", "extract", "dupfunc", "alias", "dotimport", "dupimport", "reorder"}
	case "C02", "C04", "C10", "C11", "C15", "C03":
		// behaviour is judged: no listing-order changes
		ops = []string{"paren", "comment", "alias", "dotimport", "dupimport", "block", "closure", "extract", "dupfunc", "header"}
	}
	n := 1 + uniform(t, "nmut", 6)
	for i := 0; i < n; i++ {
		var m struct {
			File string `json:"file"`
			Mut
		}
		m.File = files[uniform(t, "file", len(files))]
		m.Op = ops[uniform(t, "op", len(ops))]
		m.Site = uniform(t, "site", 64)
		m.Arg = uniform(t, "arg", 6)
		c.Muts = append(c.Muts, m)
	}
	return c
}

func (c *corpusCase) hash() string {
	b, _ := json.Marshal(c)
	h := sha256.Sum256(b)
	return hex.EncodeToString(h[:8])
}

func copyTree(src, dst string) error {
	return filepath.Walk(src, func(p string, info os.FileInfo, err error) error {
		if err != nil {
			return err
		}
		rel, _ := filepath.Rel(src, p)
		if info.IsDir() {
			return os.MkdirAll(filepath.Join(dst, rel), 0o755)
		}
		b, err := os.ReadFile(p)
		if err != nil {
			return err
		}
		return os.WriteFile(filepath.Join(dst, rel), b, 0o644)
	})
}

type corpusOutcome struct {
	findings     []rt.Finding
	labels       []string
	applied      []string
	inconclusive string
	discarded    bool
	sources      map[string]string
	output       string
}

const corpusSkip = "TestPanicRecovered" // fails on the pinned tree already (Go-version dependent stack format)

// prepareCorpus copies the module and returns its directory.
func prepareCorpus(work string) (string, error) {
	dir, err := os.MkdirTemp(work, "corpus-")
	if err != nil {
		return "", err
	}
	mod := filepath.Join(dir, "m")
	if err := copyTree(corpusRoot(), mod); err != nil {
		return dir, err
	}
	gm, err := os.ReadFile(filepath.Join(mod, "go.mod"))
	if err != nil {
		return dir, err
	}
	s := strings.Replace(string(gm), "=> ../../", "=> "+*flagRepo, 1)
	return dir, os.WriteFile(filepath.Join(mod, "go.mod"), []byte(s), 0o644)
}

func runCorpusCase(c *corpusCase, prop string) *corpusOutcome {
	oc := &corpusOutcome{sources: map[string]string{}}
	add := func(p, f string, a ...interface{}) {
		oc.findings = append(oc.findings, rt.Finding{Prop: p, Msg: fmt.Sprintf(f, a...)})
	}
	work := *flagWork
	if work == "" {
		work = os.TempDir()
	}
	dir, err := prepareCorpus(work)
	if dir != "" {
		defer os.RemoveAll(dir)
	}
	if err != nil {
		oc.inconclusive = "cannot copy the corpus: " + err.Error()
		return oc
	}
	mod := filepath.Join(dir, "m")
	pdir := filepath.Join(mod, c.Pkg)
	target := "./" + c.Pkg + "/..."

	// delete the checked-in outputs of the package, mutate its sources
	filepath.Walk(pdir, func(p string, info os.FileInfo, err error) error {
		if err == nil && !info.IsDir() && (strings.HasSuffix(p, "_gen.go") || strings.HasSuffix(p, "_gen_test.go")) {
			os.Remove(p)
		}
		return nil
	})
	reordered, free := false, false
	labels := map[string]bool{"pkg:" + c.Pkg: true, "mode:" + c.Mode: true}
	for _, m := range c.Muts {
		fp := filepath.Join(pdir, m.File)
		src, err := os.ReadFile(fp)
		if err != nil {
			continue
		}
		out, lab, ok := ApplyMut(src, m.Mut)
		if !ok {
			continue
		}
		os.WriteFile(fp, out, 0o644)
		oc.applied = append(oc.applied, m.File+":"+lab)
		labels["mut:"+strings.SplitN(lab, ":", 2)[0]] = true
		labels["mut:"+lab] = true
		if m.Op == "reorder" {
			reordered = true
		}
		if isFreeOp(m.Op) {
			free = true
		}
	}
	for l := range labels {
		oc.labels = append(oc.labels, l)
	}
	sort.Strings(oc.labels)
	tagged := cffTaggedFilesIn(pdir)
	for _, f := range tagged {
		b, _ := os.ReadFile(filepath.Join(pdir, f))
		oc.sources[f] = string(b)
	}
	if len(oc.applied) == 0 {
		oc.discarded = true
		return oc
	}

	// the mutated program must still be type-correct under the cff tag
	if o, code, _ := run(mod, 300*time.Second, "go", "test", "-tags", "cff", "-count=1", "-vet=off", "-run", "^$", target); code != 0 {
		oc.discarded = true
		oc.output = "mutated source does not compile under the cff tag (mutator slip):\n" + tailStr(o, 1500)
		return oc
	}
	before := dirSnapshot(mod)
	args := []string{}
	if c.Mode != "base" {
		args = append(args, "-genmode="+c.Mode)
	}
	args = append(args, target)
	o, code, timedOut := run(mod, 300*time.Second, *flagCff, args...)
	oc.output = tailStr(o, 3000)
	if timedOut {
		oc.inconclusive = "cff timed out"
		return oc
	}
	if crashed(o, code) {
		add("C13", "cff died with a Go panic on a type-correct program (%s after %v):\n%s", c.Pkg, oc.applied, tailStr(o, 1500))
		return oc
	}
	if free {
		if code != 0 {
			oc.labels = append(oc.labels, "free-verdict:rejected")
		} else {
			oc.labels = append(oc.labels, "free-verdict:accepted")
		}
	}
	if code != 0 && free {
		// free verdict: a clean rejection is fine
		if !strings.Contains(o, ".go:") {
			add("C13", "cff rejected %s (after %v) without a positioned diagnostic:\n%s", c.Pkg, oc.applied, tailStr(o, 1000))
		}
		after := dirSnapshot(mod)
		for _, f := range tagged {
			// no output for a file cff complained about; other files may be generated
			gp := filepath.Join(c.Pkg, genName(f))
			if _, ok := after[gp]; ok && strings.Contains(o, f+":") {
				add("C13", "cff reported errors for %s/%s but wrote %s", c.Pkg, f, genName(f))
			}
		}
		return oc
	}
	if code != 0 {
		if c.Mode != "base" {
			// does base mode accept the same tree? then the modes disagree
			if _, bc, _ := run(mod, 300*time.Second, *flagCff, target); bc == 0 {
				add("C20", "%s mode fails on %s (after %v) although base mode accepts the same tree:\n%s", c.Mode, c.Pkg, oc.applied, tailStr(o, 1200))
				return oc
			}
		}
		add("C14", "cff rejects %s after semantics-preserving mutations %v although it accepts the original program:\n%s", c.Pkg, oc.applied, tailStr(o, 1200))
		return oc
	}
	// outputs: exist, parse, no directive left
	after := dirSnapshot(mod)
	want := map[string]bool{}
	for _, f := range tagged {
		want[filepath.Join(c.Pkg, genName(f))] = true
	}
	for p, h := range after {
		if before[p] == h {
			continue
		}
		if !want[p] {
			add("C16", "cff wrote or changed %s, which is not a documented output path (expected only %v)", p, keys(want))
		}
	}
	for p := range before {
		if _, ok := after[p]; !ok {
			add("C16", "cff removed %s", p)
		}
	}
	outputs := map[string]string{}
	for _, f := range tagged {
		gp := filepath.Join(pdir, genName(f))
		b, err := os.ReadFile(gp)
		if err != nil {
			add("C13", "cff exited 0 but wrote no output for %s/%s", c.Pkg, f)
			continue
		}
		outputs[f] = string(b)
		fset := token.NewFileSet()
		gf, err := parser.ParseFile(fset, gp, b, parser.ParseComments)
		if err != nil {
			add("C13", "output %s does not parse: %v", genName(f), err)
			continue
		}
		if rem := remainingDirectives(gf); len(rem) > 0 {
			add("C13", "output %s still contains directive calls %v (after %v)", genName(f), rem, oc.applied)
		}
		// C16: everything but the directives is preserved
		sfset := token.NewFileSet()
		if sf, err := parser.ParseFile(sfset, f, oc.sources[f], parser.ParseComments); err == nil {
			sd, sm := maskedDecls(sfset, sf, false)
			gd, gm := maskedDecls(fset, gf, true)
			if sm != gm {
				add("C16", "%s: %d directives in the source, %d generated closures in the output", f, sm, gm)
			} else if len(sd) != len(gd) {
				add("C16", "%s: %d declarations in the source, %d in the output", f, len(sd), len(gd))
			} else {
				for i := range sd {
					if norm(sd[i]) != norm(gd[i]) {
						add("C16", "%s: declaration %d differs outside directives (after %v): %s", f, i, oc.applied, firstDiff(norm(sd[i]), norm(gd[i])))
						break
					}
				}
			}
			si, gi := importSet(sf), importSet(gf)
			for p, n := range si {
				if gn, ok := gi[p]; !ok || gn != n {
					add("C16", "%s: import %q (name %q) of the source is missing or renamed in the output", f, p, n)
				}
			}
		}
		for _, bad := range checkConstraints(oc.sources[f], string(b)) {
			add("C16", "%s: %s", f, bad)
		}
		if c.Mode == "source-map" && strings.Contains(string(b), "_cffmagic") {
			add("C20", "source-map output %s still contains a magic token", genName(f))
		}
	}
	if len(oc.findings) > 0 {
		return oc
	}
	if o, code, _ := run(mod, 300*time.Second, "go", "test", "-count=1", "-vet=off", "-run", "^$", target); code != 0 {
		add("C13", "cff succeeded but %s does not compile without the cff tag (after %v):\n%s", c.Pkg, oc.applied, tailStr(o, 1500))
		return oc
	}
	// the source must still be selectable with the tag next to the outputs
	// (exactly one of source / output is selected either way)
	if o, code, _ := run(mod, 300*time.Second, "go", "test", "-tags", "cff", "-count=1", "-vet=off", "-run", "^$", target); code != 0 {
		add("C16", "with the cff tag the package no longer compiles once the outputs exist (source and output selected together?) after %v:\n%s", oc.applied, tailStr(o, 1200))
		return oc
	}

	if prop == "C17" {
		if o2, code2, _ := run(mod, 300*time.Second, *flagCff, args...); code2 != 0 {
			add("C17", "a second cff run on the same tree failed: %s", tailStr(o2, 600))
		} else {
			for _, f := range tagged {
				b, _ := os.ReadFile(filepath.Join(pdir, genName(f)))
				if string(b) != outputs[f] {
					add("C17", "%s: a second cff process produced different bytes (after %v): %s", genName(f), oc.applied, firstDiff(outputs[f], string(b)))
				}
			}
		}
	}
	if prop == "C20" {
		// the same tree in base mode
		if o2, code2, _ := run(mod, 300*time.Second, *flagCff, target); code2 != 0 {
			add("C20", "base mode fails where source-map mode succeeded: %s", tailStr(o2, 600))
		} else {
			for _, f := range tagged {
				b, _ := os.ReadFile(filepath.Join(pdir, genName(f)))
				s1, e1 := stripComments(f, outputs[f])
				s2, e2 := stripComments(f, string(b))
				if e1 != nil || e2 != nil {
					add("C20", "%s: output does not parse: %v %v", genName(f), e1, e2)
				} else if s1 != s2 {
					add("C20", "%s: source-map and base outputs differ beyond comments (after %v): %s", genName(f), oc.applied, firstDiff(s2, s1))
				}
			}
			// leave the source-map outputs in place for the behaviour run
			for _, f := range tagged {
				os.WriteFile(filepath.Join(pdir, genName(f)), []byte(outputs[f]), 0o644)
			}
		}
	}

	// behaviour: the package's own tests (not after a rotation of the options;
	// after a free-verdict rewrite the accepted program must still behave)
	if reordered {
		return oc
	}
	bp := corpusProp[c.Pkg]
	if c.Mode == "source-map" {
		bp = "C20" // identical behaviour is what C20 promises
	}
	tests := func(dir string) (string, int) {
		o, code, to := run(dir, 600*time.Second, "go", "test", "-count=1", "-vet=off", "-skip", corpusSkip, target)
		if to {
			return o, -1
		}
		return o, code
	}
	if o, code := tests(mod); code != 0 {
		// confirm: fails again twice, and the unmutated program passes here and now
		fails := 1
		for i := 0; i < 2; i++ {
			if _, c2 := tests(mod); c2 != 0 {
				fails++
			}
		}
		if fails < 3 {
			oc.inconclusive = "a corpus test failed once but not reproducibly (flaky test in the corpus)"
			return oc
		}
		bdir, err := prepareCorpus(work)
		if bdir != "" {
			defer os.RemoveAll(bdir)
		}
		if err != nil {
			oc.inconclusive = "cannot prepare the baseline copy"
			return oc
		}
		bmod := filepath.Join(bdir, "m")
		if _, bc, _ := run(bmod, 300*time.Second, *flagCff, args...); bc != 0 {
			oc.inconclusive = "cff fails on the unmutated corpus package"
			return oc
		}
		if _, bc := tests(bmod); bc != 0 {
			oc.inconclusive = "the unmutated corpus package fails its own tests in this environment"
			return oc
		}
		add(bp, "the tests of %s pass on the original program but fail (3 of 3 runs) after regenerating it from a semantically identical source (%v):\n%s", c.Pkg, oc.applied, tailStr(o, 1800))
	}
	return oc
}

func keys(m map[string]bool) []string {
	var out []string
	for k := range m {
		out = append(out, k)
	}
	sort.Strings(out)
	return out
}

func cffTaggedFilesIn(pdir string) []string {
	var out []string
	ents, _ := os.ReadDir(pdir)
	for _, e := range ents {
		n := e.Name()
		if !strings.HasSuffix(n, ".go") || strings.HasSuffix(n, "_gen.go") || strings.HasSuffix(n, "_gen_test.go") {
			continue
		}
		b, err := os.ReadFile(filepath.Join(pdir, n))
		if err != nil {
			continue
		}
		head := string(b)
		if i := strings.Index(head, "\npackage "); i >= 0 {
			head = head[:i]
		}
		if strings.Contains(head, "cff") && (strings.Contains(head, "//go:build") || strings.Contains(head, "+build")) {
			out = append(out, n)
		}
	}
	sort.Strings(out)
	return out
}

// TestCorpus is engine E-CORPUS.
func TestCorpus(t *testing.T) {
	if *flagCff == "" {
		t.Skip("-cff not given")
	}
	prop := *flagProp
	if *flagReplay != "" {
		b, err := os.ReadFile(*flagReplay)
		if err != nil {
			t.Fatal(err)
		}
		var f corpusFail
		if err := json.Unmarshal(b, &f); err != nil || f.Case == nil {
			t.Fatalf("replay: %v", err)
		}
		oc := runCorpusCase(f.Case, prop)
		if oc.inconclusive != "" {
			t.Skip(oc.inconclusive)
		}
		for _, fd := range oc.findings {
			if fd.Prop == prop {
				t.Fatalf("replay reproduces: %s", fd.Msg)
			}
		}
		return
	}
	var logf *os.File
	if *flagOut != "" {
		logf, _ = os.Create(filepath.Join(*flagOut, fmt.Sprintf("cases-%s-corpus-%d.jsonl", prop, *flagShard)))
		defer logf.Close()
	}
	samples := 0
	rapid.Check(t, func(rt_ *rapid.T) {
		c := genCorpusCase(rt_, prop)
		oc := runCorpusCase(c, prop)
		if m := takeEnvTrouble(); m != "" && oc.inconclusive == "" {
			oc.inconclusive = "a tool failed for an environmental reason (" + m + "): no verdict"
		}
		if oc.inconclusive != "" {
			if *flagOut != "" {
				if f, err := os.OpenFile(filepath.Join(*flagOut, fmt.Sprintf("inconclusive-%s-%d.txt", prop, *flagShard)), os.O_APPEND|os.O_CREATE|os.O_WRONLY, 0o644); err == nil {
					f.WriteString(strings.ReplaceAll(oc.inconclusive, "\n", " | ") + "\n")
					f.Close()
				}
			}
			// counted, not skipped: a package whose tests cannot be judged (e.g.
			// its own baseline fails once regenerated) must not make rapid give
			// up on the whole stage
			if logf != nil {
				b, _ := json.Marshal(emLogLine{H: c.hash(), NT: false, Labels: []string{"inconclusive"}})
				logf.Write(append(b, '\n'))
			}
			return
		}
		if oc.discarded {
			if logf != nil {
				b, _ := json.Marshal(emLogLine{H: c.hash(), NT: false, Labels: []string{"discarded-invalid-or-noop"}})
				logf.Write(append(b, '\n'))
			}
			return
		}
		var mine []rt.Finding
		var others []string
		for _, fd := range oc.findings {
			if fd.Prop == prop {
				mine = append(mine, fd)
			} else {
				others = append(others, fd.Prop)
				if *flagOut != "" {
					if f, err := os.OpenFile(filepath.Join(*flagOut, fmt.Sprintf("otherfindings-%s-%d.txt", prop, *flagShard)), os.O_APPEND|os.O_CREATE|os.O_WRONLY, 0o644); err == nil {
						f.WriteString("[" + fd.Prop + "] " + clip(fd.Msg) + "\n")
						f.Close()
					}
				}
			}
		}
		if logf != nil {
			nt := len(oc.applied) >= 2
			ll := struct {
				emLogLine
				Other []string `json:"other,omitempty"`
			}{emLogLine{H: c.hash(), NT: nt, Labels: oc.labels}, others}
			if nt && samples < 2 {
				samples++
				b, _ := json.Marshal(map[string]interface{}{"case": c, "applied": oc.applied})
				ll.Sample = b
			}
			b, _ := json.Marshal(ll)
			logf.Write(append(b, '\n'))
		}
		if len(mine) > 0 {
			if *flagOut != "" {
				b, _ := json.MarshalIndent(corpusFail{Prop: prop, Engine: "corpus", Case: c, Applied: oc.applied, Findings: mine, Sources: oc.sources, Output: oc.output}, "", " ")
				os.WriteFile(filepath.Join(*flagOut, fmt.Sprintf("fail-%s-corpus-%d.json", prop, *flagShard)), b, 0o644)
			}
			rt_.Fatalf("%s: %s", prop, mine[0].Msg)
		}
	})
}
